#!/bin/bash
exec python3 "$(dirname "$0")/mutants/run.py" "$@"
