#!/bin/bash
# Determinism proof of the machinery itself (DESIGN.md 6):
#  (1) per-run digests: for each claimed property, SEEDS seeds x 2 repetitions x GOMAXPROCS {1,4,16},
#      each in its own process, plain and race build; all outputs for one (property, seed) must be identical.
#  (2) batch digest independent of the number of workers {1,5,16}.
# Any difference is a harness defect: exit 2. Never prints VIOLATION.
set -u
HERE="$(cd "$(dirname "$0")" && pwd)"
BIN="$HERE/sim/bin"
SEEDS="${SELFTEST_SEEDS:-40}"
N="${SELFTEST_RUNS:-150}"
TMP="$(mktemp -d /var/tmp/vsim-selftest-XXXXXX)"
trap 'rm -rf "$TMP"' EXIT
export GORACE="halt_on_error=1 exitcode=66 atexit_sleep_ms=0"
if "$BIN/vsim" corpus -repo /repo -out "$BIN/corpus.json" >/dev/null 2>&1; then export VERIF_CORPUS="$BIN/corpus.json"; fi
fail=0
for P in C12 C13 C19 C20; do
  pids=()
  for s in $(seq 1 "$SEEDS"); do
    (
      ref=""
      for rep in 1 2; do for gmp in 1 4 16; do
        for b in vsim vsim.race; do
          if [ "$b" = vsim.race ] && { [ $rep = 2 ] || [ $gmp = 4 ]; }; then continue; fi
          n=$N; [ "$b" = vsim.race ] && n=$((N/3))
          h=$(GOMAXPROCS=$gmp timeout 600 "$BIN/$b" digest -prop $P -seed $((1000+s)) -n $n | head -n $((N/3)) | md5sum | cut -d' ' -f1)
          if [ -z "$ref" ]; then ref="$h"; elif [ "$h" != "$ref" ]; then echo "DIVERGED property=$P seed=$((1000+s)) rep=$rep GOMAXPROCS=$gmp bin=$b" > "$TMP/fail.$P.$s"; fi
        done
      done; done
    ) &
    pids+=($!)
    if [ ${#pids[@]} -ge 16 ]; then wait "${pids[0]}"; pids=("${pids[@]:1}"); fi
  done
  wait
  if ls "$TMP"/fail.$P.* >/dev/null 2>&1; then cat "$TMP"/fail.$P.*; fail=1; else echo "selftest: $P per-run digests identical: $SEEDS seeds x (2 reps x GOMAXPROCS 1/4/16 plain + GOMAXPROCS 1/16 race), first $((N/3)) runs each"; fi
  ref=""
  for W in 1 5 16; do
    d=$(VERIF_NO_EVIDENCE=1 VERIF_SEED=777 "$BIN/vsim" check -prop $P -tier quick -runs 3000 -workers $W -race-bin "$BIN/vsim.race" 2>&1 | grep "batch digest" | awk '{print $4}')
    if [ -z "$ref" ]; then ref="$d"; elif [ "$d" != "$ref" ] || [ -z "$d" ]; then echo "DIVERGED property=$P batch digest with $W workers: $d vs $ref"; fail=1; fi
  done
  echo "selftest: $P batch digest $ref identical for 1, 5 and 16 workers"
done
if [ $fail = 0 ]; then echo "selftest: OK"; exit 0; fi
echo "MACHINERY-BROKEN: determinism self-test failed"; exit 2
