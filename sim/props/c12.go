package props

import (
	"bytes"
	"fmt"
	"io"
	"strings"
	"unicode/utf8"

	"github.com/tdewolff/parse/v2"
	"github.com/tdewolff/parse/v2/buffer"

	"verif/sim/core"
	"verif/sim/faultio"
)

func init() { Registry["C12"] = RunC12 }

// cursor is the API shared by parse.Input and buffer.Lexer.
type cursor interface {
	Err() error
	PeekErr(int) error
	Peek(int) byte
	PeekRune(int) (rune, int)
	Move(int)
	Pos() int
	Rewind(int)
	Lexeme() []byte
	Skip()
	Shift() []byte
	Offset() int
	Bytes() []byte
	Reset()
	Restore()
}

type runeMover interface{ MoveRune() }
type lener interface{ Len() int }

const (
	ctorBytesExact = iota
	ctorBytesPlus1
	ctorBytesSpare
	ctorString
	ctorReader
	ctorOwnBytesReader
	ctorBufferReader
	ctorBytesBuffer
	ctorNil
	ctorStdBytesReader   // *bytes.Reader: no Bytes(), but Len()/Size()/Seek()/ReadAt()/WriteTo()
	ctorStdStringsReader // *strings.Reader
	ctorStdSection       // *io.SectionReader
	ctorBufReaderPlain   // buffer.Reader behind a plain io.Reader (its Bytes() hidden), possibly partly consumed
	nCtors
)

var ctorNames = [...]string{"Bytes(cap==len)", "Bytes(cap==len+1)", "Bytes(spare)", "String", "Reader(sim)", "Reader(own Bytes())", "Reader(buffer.Reader)", "Reader(bytes.Buffer)", "Reader(nil)", "Reader(bytes.Reader)", "Reader(strings.Reader)", "Reader(io.SectionReader)", "Reader(buffer.Reader as plain io.Reader)"}

const (
	o12Peek = iota
	o12PeekErr
	o12Err
	o12Move
	o12MoveRune
	o12Rewind
	o12Skip
	o12Shift
	o12Lexeme
	o12Pos
	o12Offset
	o12Reset
	o12Bytes
	o12Len
	o12PeekRune
	o12Scan
	nOps12
)

var op12Names = [...]string{"Peek", "PeekErr", "Err", "Move", "MoveRune", "Rewind", "Skip", "Shift", "Lexeme", "Pos", "Offset", "Reset", "Bytes", "Len", "PeekRune", "Scan"}

type c12 struct {
	ctx   *core.Ctx
	z     cursor
	data  []byte // what the cursor must range over
	fail  error  // reader failed: error with no data
	start int
	pos   int
	facts string

	backing []byte // caller-owned array (nil if none)
	snap    []byte
	n       int
	borrow  bool
}

func (m *c12) viol(class, f string, a ...interface{}) *core.Violation {
	return m.ctx.Viol("C12/"+class, m.facts, f, a...)
}

func (m *c12) checkMem(op string, restored bool) *core.Violation {
	if m.backing == nil {
		return nil
	}
	for i := range m.backing {
		if i == m.n && !restored && m.n > 0 {
			continue // the byte behind a non-empty input may be borrowed for the terminator until Restore
		}
		if m.backing[i] != m.snap[i] {
			return m.viol("caller-memory-modified", "after %s the caller's array differs at index %d (len %d, cap %d): %#x, was %#x", op, i, m.n, len(m.backing), m.backing[i], m.snap[i])
		}
	}
	return nil
}

func (m *c12) checkSlice(name string, got, want []byte) *core.Violation {
	if !eq(got, want) {
		return m.viol(name+"-wrong", "%s() = %q (len %d), want %q (len %d) with start=%d pos=%d", name, clip(got), len(got), clip(want), len(want), m.start, m.pos)
	}
	return nil
}

// appendProbe appends to a returned slice and checks that the input is intact.
func (m *c12) appendProbe(name string, got []byte) *core.Violation {
	var slot byte
	if m.backing != nil && m.n < len(m.backing) {
		slot = m.backing[m.n]
	}
	x := append(got, 0xA5) // one byte: fits into any spare capacity, however small
	_ = x
	if b := m.z.Bytes(); !eq(b, m.data) {
		return m.viol("append-clobbers-input", "appending to the slice returned by %s() changed Bytes()", name)
	}
	if m.pos < len(m.data) && m.z.Peek(0) != m.data[m.pos] {
		return m.viol("append-clobbers-input", "appending to the slice returned by %s() changed Peek(0)", name)
	}
	if c := m.z.Peek(len(m.data) - m.pos); c != 0 {
		return m.viol("append-clobbers-input", "appending to the slice returned by %s() (len %d, cap %d) overwrote the terminator: Peek at the end = %#x", name, len(got), cap(got), c)
	}
	if m.backing != nil && m.n < len(m.backing) && m.backing[m.n] != slot {
		return m.viol("append-clobbers-input", "appending to the slice returned by %s() (len %d, cap %d) changed the byte behind the input in the caller's array", name, len(got), cap(got))
	}
	return nil
}

func (m *c12) wantErrAt(abs int) error {
	if m.fail != nil {
		return m.fail
	}
	if abs >= len(m.data) {
		return io.EOF
	}
	return nil
}

// RunC12 is one simulated execution for property C12.
func RunC12(ctx *core.Ctx) *core.Violation {
	t := ctx.T
	m := &c12{ctx: ctx}
	useLexer := t.Chance(1, 2)
	ctor := t.Draw(nCtors)
	if useLexer && ctor == ctorString {
		ctor = ctorBytesExact
	}
	n := drawLen(t)
	if n > 300 {
		n = 300 + n/10
	}
	big := t.Chance(1, 60)
	if big {
		// sizes around the thresholds an implementation might special-case
		n = t.Pick(255, 256, 257, 511, 512, 513, 896, 4095, 4096, 4097, 8192, 65535, 65536, 65537, 70000) + t.Draw(3) - 1
		ctx.Count("probe_big_input")
	}
	alphabet := t.Draw(4)
	var data []byte
	if alphabet == 3 {
		// valid UTF-8 followed by a truncated or invalid tail, at every distance from the end
		data = genData(t, max(n-3, 0), 1)
		lead := []byte{0xC3, 0xE2, 0xF0, 0xF4, 0xED, 0xC0, 0xFF, 0x80}[t.Draw(8)]
		tail := []byte{lead}
		for k := t.Draw(4); k > 0; k-- {
			tail = append(tail, byte(0x80+t.Draw(0x40)))
		}
		for k := t.Draw(3); k > 0; k-- {
			tail = append(tail, byte('a'+t.Draw(3)))
		}
		data = append(data, tail...)
	} else {
		data = genData(t, n, alphabet)
	}
	if alphabet == 0 && n >= 16 && t.Chance(1, 2) {
		// a plain text with a few non-ASCII characters in it, one of them close to the end: the
		// usual shape of real documents, and the one in which a "no multi-byte so far" shortcut
		// would go wrong
		for k := 1 + t.Draw(3); k > 0; k-- {
			r := []rune{0xE9, 0x3A3, 0x20AC, 0x6F22, 0x1F600, 0x10FFFF}[t.Draw(6)]
			at := t.Draw(n - 8)
			if k == 1 {
				at = n - 4 - t.Draw(5)
			}
			copy(data[at:], string(r))
		}
		ctx.Count("probe_sparse_runes")
	}
	if t.Chance(1, 20) {
		// a byte-order mark is ordinary data for a byte cursor
		data = append([]byte{0xEF, 0xBB, 0xBF}, data...)
		ctx.Count("probe_bom_prefix")
	}
	n = len(data)
	m.n = n
	spare := 0
	switch ctor {
	case ctorBytesPlus1:
		spare = 1
	case ctorBytesSpare:
		spare = 2 + t.Draw(6)
	case ctorOwnBytesReader, ctorBufferReader, ctorBytesBuffer:
		spare = t.Pick(0, 1, 3)
	}
	typ := "Input"
	if useLexer {
		typ = "Lexer"
	}
	m.facts = fmt.Sprintf("type=%s ctor=%s", typ, ctorNames[ctor])

	mk := func(b []byte) cursor {
		if useLexer {
			return buffer.NewLexerBytes(b)
		}
		return parse.NewInputBytes(b)
	}
	mkR := func(r io.Reader) cursor {
		if useLexer {
			return buffer.NewLexer(r)
		}
		return parse.NewInput(r)
	}
	var rd *faultio.Reader
	switch ctor {
	case ctorBytesExact, ctorBytesPlus1, ctorBytesSpare, ctorOwnBytesReader, ctorBufferReader, ctorBytesBuffer:
		m.backing = make([]byte, n+spare)
		copy(m.backing, data)
		for i := n; i < n+spare; i++ {
			// garbage behind the input, biased to continuation bytes
			if t.Chance(2, 3) {
				m.backing[i] = byte(0x80 + t.Draw(0x40))
			} else {
				m.backing[i] = byte(1 + t.Draw(255))
			}
		}
		m.snap = append([]byte(nil), m.backing...)
		b := m.backing[:n]
		m.borrow = spare > 0 && n > 0
		switch ctor {
		case ctorOwnBytesReader:
			m.z = mkR(faultio.BytesReader{Reader: faultio.NewReader(ctx, b, faultio.Plan{FailAt: -1})})
		case ctorBufferReader:
			if t.Chance(1, 2) {
				// the bytes reach the Reader through a buffer.Writer (written in pieces, grown on
				// the way, sometimes reset and written again): the array is then the Writer's
				w := buffer.NewWriter(make([]byte, 0, t.Pick(0, 1, n/2, n, n+1, n+5)))
				for round := 0; round < 2; round++ {
					for off := 0; off < n; {
						k := 1 + t.Draw(n-off)
						w.Write(data[off : off+k])
						off += k
					}
					if round == 0 && t.Chance(3, 4) {
						break
					}
					if round == 0 {
						w.Reset()
					}
				}
				b = w.Bytes()
				if w.Len() != n || len(b) != n {
					return m.viol("writer-len-wrong", "buffer.Writer holds %d bytes (Len() %d) after %d were written", len(b), w.Len(), n)
				}
				m.backing = b[:cap(b)]
				for i := n; i < len(m.backing); i++ {
					m.backing[i] = byte(0x80 + i%0x40)
				}
				m.snap = append([]byte(nil), m.backing...)
				m.borrow = cap(b) > n && n > 0
				ctx.Count("probe_reader_over_writer_bytes")
			}
			rb := buffer.NewReader(b)
			if t.Chance(1, 4) {
				rb.Reset() // a Reader that was rewound before use
			}
			if rb.Len() != n {
				return m.viol("reader-len-wrong", "buffer.Reader.Len() = %d over %d bytes", rb.Len(), n)
			}
			m.z = mkR(rb)
		case ctorBytesBuffer:
			bb := bytes.NewBuffer(b)
			if n > 0 && t.Chance(1, 3) {
				// the caller has already read k bytes: the Input must cover the unread remainder
				k := 1 + t.Draw(n)
				bb.Next(k)
				data = data[k:]
				ctx.Count("probe_bytes_buffer_partially_read")
			}
			m.z = mkR(bb)
		default:
			m.z = mk(b)
		}
		m.data = data
		if m.borrow {
			ctx.NonT = true
			ctx.Count("probe_terminator_borrowed")
			// (whether the implementation really borrows the byte or copies the input is its own
			// business: only what it leaves behind after Restore is judged)
		}
	case ctorStdBytesReader, ctorStdStringsReader, ctorStdSection:
		// real standard-library readers that know their size; sometimes the caller has already
		// consumed a prefix (a sniffed header), so the Input must cover the remainder
		var sr interface {
			io.Reader
			io.Seeker
		}
		switch ctor {
		case ctorStdBytesReader:
			sr = bytes.NewReader(data)
		case ctorStdStringsReader:
			sr = strings.NewReader(string(data))
		default:
			sr = io.NewSectionReader(bytes.NewReader(append(append([]byte("HEAD"), data...), "TAIL"...)), 4, int64(len(data)))
		}
		if len(data) > 0 && t.Chance(1, 2) {
			k := 1 + t.Draw(len(data))
			sr.Seek(int64(k), io.SeekStart)
			data = data[k:]
			ctx.Count("probe_sized_reader_partially_consumed")
		}
		m.z = mkR(sr)
		m.data = data
		n = len(data)
		m.n = n
	case ctorBufReaderPlain:
		// The library's own byte-slice reader used as an ordinary io.Reader: the caller may have read
		// part of it already (in pieces), may have rewound it and read again; the Input ranges over
		// what such a reader delivers from then on, the unread remainder.
		rb := buffer.NewReader(data)
		k := 0
		for round := 0; round < 2 && n > 0 && t.Chance(2, 3); round++ {
			if round == 1 {
				rb.Reset()
				k = 0
			}
			want := t.Draw(n + 1)
			for k < want {
				p := make([]byte, 1+t.Draw(want-k+2))
				got, err := rb.Read(p)
				if got < 1 || got > len(p) || err != nil || !eq(p[:got], data[k:k+min(got, n-k)]) {
					return m.viol("reader-delivers-wrong", "buffer.Reader over %d bytes, %d already read: Read(len %d) = %d, %v %q", n, k, len(p), got, err, clip(p[:max(got, 0)]))
				}
				k += got
			}
			ctx.Count("probe_buffer_reader_partially_consumed")
		}
		m.z = mkR(struct{ io.Reader }{rb})
		data = data[k:]
		m.data = data
		n = len(data)
		m.n = n
	case ctorString:
		m.z = parse.NewInputString(string(data))
		m.data = data
	case ctorNil:
		m.z = mkR(nil)
		m.data = nil
		n = 0
		m.n = 0
	case ctorReader:
		plan := faultio.DrawPlan(t, n, true)
		rd = faultio.NewReader(ctx, data, plan)
		m.z = mkR(rd)
		if plan.FailAt >= 0 {
			m.fail = plan.Err
			m.data = nil
			ctx.Count("probe_ctor_reader_failed")
			ctx.NonT = true
		} else {
			m.data = data
			if rd.Reads > 2 {
				ctx.NonT = true
				ctx.Count("probe_ctor_reader_chunked")
			}
		}
		ctx.Describe("reader plan: chunk=%d fixed=%d eofStyle=%d zeroReads=%v failAt=%d failWithData=%v err=%v reads=%d", plan.Chunk, plan.Fixed, plan.EOFStyle, plan.ZeroReads, plan.FailAt, plan.FailWith, plan.Err, rd.Reads)
	}
	ctx.Describe("C12: %s ctor=%s len=%d spare=%d alphabet=%d data=%q", typ, ctorNames[ctor], len(data), spare, alphabet, clip(data))
	ctx.SigAdd(uint64(ctor))
	if useLexer {
		ctx.SigAdd(77)
	}
	if m.fail != nil {
		ctx.SigAdd(99)
	}
	N := len(m.data)

	var w [nOps12]int
	base := [nOps12]int{o12Peek: 6, o12PeekErr: 2, o12Err: 2, o12Move: 6, o12MoveRune: 3, o12Rewind: 1, o12Skip: 1, o12Shift: 3, o12Lexeme: 2, o12Pos: 1, o12Offset: 1, o12Reset: 1, o12Bytes: 1, o12Len: 1, o12PeekRune: 6, o12Scan: 3}
	for i := range w {
		w[i] = base[i]
		if i != o12Peek && i != o12Move && t.Chance(1, 4) {
			w[i] = 0
		}
	}
	stopN := t.Pick(8, 32, 96)
	restoreLast := t.Chance(1, 2)
	// A second, independent instance of the same kind over other data of the same length is
	// created in the middle of the history and used a little; the first instance must go on
	// ranging over exactly its own bytes (callers routinely have several Inputs alive).
	siblingAt := -1
	if t.Chance(1, 3) {
		siblingAt = t.Draw(12)
	}
	makeSibling := func() *core.Violation {
		other := make([]byte, len(data))
		if ctor == ctorNil {
			other = nil
		}
		for i := range other {
			other[i] = data[i] ^ 0x55
		}
		var sib cursor
		switch ctor {
		case ctorReader:
			sib = mkR(faultio.NewReader(ctx, other, faultio.Plan{FailAt: -1, Chunk: faultio.ChunkFixed, Fixed: 1024}))
		case ctorString:
			sib = parse.NewInputString(string(other))
		case ctorNil:
			sib = mkR(nil)
		case ctorBufferReader:
			sib = mkR(buffer.NewReader(other))
		case ctorBytesBuffer:
			sib = mkR(bytes.NewBuffer(other))
		default:
			sib = mk(other)
		}
		ctx.Count("probe_sibling_instance")
		for i := 0; i < len(other) && i < 5; i++ {
			if sib.Peek(0) != other[i] {
				return m.viol("sibling-wrong", "a second instance over other data returns %#x at offset %d, want %#x", sib.Peek(0), i, other[i])
			}
			sib.Move(1)
		}
		sib.Shift()
		sib.Restore()
		if got := m.z.Bytes(); !eq(got, m.data) {
			return m.viol("instances-not-independent", "after a second %s was created over other data of the same length, Bytes() of the first instance changed", typ)
		}
		if m.pos < N && m.z.Peek(0) != m.data[m.pos] {
			return m.viol("instances-not-independent", "after a second %s was created, Peek(0) of the first instance = %#x, want %#x", typ, m.z.Peek(0), m.data[m.pos])
		}
		return nil
	}

	step := func() *core.Violation {
		op := t.Weighted(w[:]...)
		ctx.SigAdd(uint64(op))
		switch op {
		case o12Peek:
			i := 0
			switch t.Draw(3) {
			case 0:
				i = 0
			case 1:
				i = N - m.pos - t.Draw(min(4, N-m.pos+1)) // near the end
			default:
				i = t.Range(-m.pos, N-m.pos)
			}
			if m.pos+i < 0 || m.pos+i > N {
				i = 0
			}
			got := m.z.Peek(i)
			ctx.L.Ev("Peek", int64(i), int64(got))
			want := byte(0)
			if m.pos+i < N {
				want = m.data[m.pos+i]
			}
			if got != want {
				return m.viol("peek-wrong", "Peek(%d) at offset %d of %d = %#x, want %#x", i, m.pos, N, got, want)
			}
		case o12PeekErr:
			i := t.Range(-m.pos, N-m.pos+3) // positions before the start of the input are not constrained
			got := m.z.PeekErr(i)
			ctx.L.Ev("PeekErr", int64(i))
			if want := m.wantErrAt(m.pos + i); got != want {
				return m.viol("peekerr-wrong", "PeekErr(%d) at offset %d of %d = %v, want %v", i, m.pos, N, got, want)
			}
		case o12Err:
			got := m.z.Err()
			ctx.L.Ev("Err")
			if want := m.wantErrAt(m.pos); got != want {
				return m.viol("err-wrong", "Err() at offset %d of %d = %v, want %v", m.pos, N, got, want)
			}
		case o12Move:
			lo, hi := m.start-m.pos, N-m.pos
			k := 0
			if t.Chance(3, 4) {
				k = t.Range(0, min(hi, 6))
			} else {
				k = t.Range(lo, hi)
			}
			m.z.Move(k)
			m.pos += k
			ctx.L.Ev("Move", int64(k))
		case o12MoveRune:
			mr, ok := m.z.(runeMover)
			if !ok || m.pos >= N {
				return nil
			}
			// what was looked at last must not matter: the rune at the position, a rune further
			// ahead, or nothing at all since the last move
			pn := -1
			switch look := t.Draw(3); {
			case look == 0:
				_, pn = m.z.PeekRune(0)
			case look == 1 && N-m.pos > 1:
				m.z.PeekRune(1 + t.Draw(min(6, N-m.pos-1)))
				ctx.Count("probe_moverune_after_lookahead")
			}
			before := m.z.Offset()
			mr.MoveRune()
			adv := m.z.Offset() - before
			ctx.L.Ev("MoveRune", int64(adv))
			if pn >= 0 && adv != pn {
				return m.viol("moverune-wrong", "MoveRune() at offset %d of %d advanced by %d but PeekRune(0) reports length %d", m.pos, N, adv, pn)
			}
			if adv < 1 || m.pos+adv > N {
				return m.viol("moverune-past-end", "MoveRune() at offset %d of %d advanced by %d, past the end", m.pos, N, adv)
			}
			if r, rn, ok := validRuneAt(m.data[m.pos:]); ok && rn != adv {
				return m.viol("moverune-wrong", "MoveRune() at offset %d advanced by %d over valid rune %U of length %d", m.pos, adv, r, rn)
			}
			m.pos += adv
		case o12Rewind:
			var p int
			if t.Chance(3, 4) {
				p = t.Range(0, m.pos-m.start)
			} else {
				p = t.Range(0, N-m.start)
			}
			m.z.Rewind(p)
			m.pos = m.start + p
			ctx.L.Ev("Rewind", int64(p))
		case o12Skip:
			m.z.Skip()
			m.start = m.pos
			ctx.L.Ev("Skip")
		case o12Shift:
			got := m.z.Shift()
			ctx.L.EvB("Shift", got)
			if v := m.checkSlice("Shift", got, m.data[m.start:m.pos]); v != nil {
				return v
			}
			m.start = m.pos
			if v := m.appendProbe("Shift", got); v != nil {
				return v
			}
		case o12Lexeme:
			got := m.z.Lexeme()
			ctx.L.EvB("Lexeme", got)
			if v := m.checkSlice("Lexeme", got, m.data[m.start:m.pos]); v != nil {
				return v
			}
			if v := m.appendProbe("Lexeme", got); v != nil {
				return v
			}
		case o12Pos:
			got := m.z.Pos()
			ctx.L.Ev("Pos", int64(got))
			if got != m.pos-m.start {
				return m.viol("pos-wrong", "Pos() = %d, want %d", got, m.pos-m.start)
			}
		case o12Offset:
			got := m.z.Offset()
			ctx.L.Ev("Offset", int64(got))
			if got != m.pos {
				return m.viol("offset-wrong", "Offset() = %d, want %d", got, m.pos)
			}
		case o12Reset:
			m.z.Reset()
			m.start, m.pos = 0, 0
			ctx.L.Ev("Reset")
		case o12Bytes:
			got := m.z.Bytes()
			ctx.L.Ev("Bytes", int64(len(got)))
			if v := m.checkSlice("Bytes", got, m.data); v != nil {
				return v
			}
			if v := m.appendProbe("Bytes", got); v != nil {
				return v
			}
		case o12Len:
			l, ok := m.z.(lener)
			if !ok {
				return nil
			}
			got := l.Len()
			ctx.L.Ev("Len", int64(got))
			if got != N {
				return m.viol("len-wrong", "Len() = %d, want %d", got, N)
			}
		case o12PeekRune:
			if m.pos >= N {
				return nil
			}
			var i int
			if t.Chance(1, 2) {
				i = N - m.pos - 1 - t.Draw(min(5, N-m.pos)) // within 5 bytes of the end
			} else {
				i = t.Draw(N - m.pos)
			}
			if i < 0 {
				i = 0
			}
			if m.pos > 0 && t.Chance(1, 8) {
				i = -(1 + t.Draw(min(m.pos, 5))) // look-behind
			}
			abs := m.pos + i
			r, rn := m.z.PeekRune(i)
			ctx.L.Ev("PeekRune", int64(i), int64(r), int64(rn))
			distEnd := N - abs
			if distEnd <= 4 {
				ctx.SigAdd(uint64(1000 + distEnd*8 + min(i, 7)))
				if i > 0 {
					ctx.NonT = true
					ctx.Count("probe_peekrune_i_gt0_near_end")
				}
			}
			if rn < 1 || abs+rn > N {
				return m.viol("peekrune-length-past-end", "PeekRune(%d) at offset %d of %d (bytes % x) reports length %d: reaches past the end", i, m.pos, N, m.data[abs:], rn)
			}
			if wr, wn, ok := validRuneAt(m.data[abs:]); ok {
				if r != wr || rn != wn {
					return m.viol("peekrune-wrong", "PeekRune(%d) at offset %d = (%U,%d), unicode/utf8 gives (%U,%d) for % x", i, m.pos, r, rn, wr, wn, m.data[abs:abs+wn])
				}
				if wn > 1 {
					ctx.Count("probe_peekrune_multibyte")
				}
			} else {
				ctx.Count("probe_peekrune_invalid_or_truncated")
				if !utf8.FullRune(m.data[abs:]) {
					ctx.Count("probe_peekrune_truncated_at_end")
				}
			}
		case o12Scan:
			// the typical lexer loop: peek, move, until a 0 at the end
			for k := 1 + t.Draw(12); k > 0; k-- {
				c := m.z.Peek(0)
				if m.pos < N {
					if c != m.data[m.pos] {
						return m.viol("peek-wrong", "Peek(0) at offset %d = %#x, want %#x", m.pos, c, m.data[m.pos])
					}
					m.z.Move(1)
					m.pos++
				} else {
					if c != 0 || m.z.Err() != m.wantErrAt(m.pos) {
						return m.viol("end-wrong", "at the end: Peek(0)=%#x Err()=%v, want 0 and %v", c, m.z.Err(), m.wantErrAt(m.pos))
					}
					ctx.Count("probe_scanned_to_end")
					break
				}
			}
			ctx.L.Ev("Scan", int64(m.pos))
		}
		if c := m.z.Peek(N - m.pos); c != 0 {
			return m.viol("terminator-wrong", "after %s: Peek at the end of the %d input bytes = %#x, want 0", op12Names[op], N, c)
		}
		return m.checkMem(op12Names[op], false)
	}

	// initial state checks
	if m.fail != nil {
		if e := m.z.Err(); e != m.fail {
			return m.viol("reader-error-lost", "reader failed with %v after %d bytes but Err() = %v", m.fail, rd.Off, e)
		}
		if b := m.z.Bytes(); len(b) != 0 {
			return m.viol("reader-error-with-data", "reader failed but Bytes() has %d bytes", len(b))
		}
		if c := m.z.Peek(0); c != 0 {
			return m.viol("reader-error-with-data", "reader failed but Peek(0) = %#x", c)
		}
	}
	if m.fail == nil {
		if b := m.z.Bytes(); !eq(b, m.data) {
			return m.viol("Bytes-wrong", "right after construction Bytes() has %d bytes (%q), the source delivers %d (%q); Err() = %v", len(b), clip(b), len(m.data), clip(m.data), m.z.Err())
		}
	}
	if v := m.checkMem("constructor", false); v != nil {
		return v
	}
	for ops := 0; ops < 300; ops++ {
		if t.Draw(stopN) == 0 {
			break
		}
		if ops == siblingAt {
			if v := makeSibling(); v != nil {
				return v
			}
		}
		if big && N > 0 && t.Chance(1, 6) {
			// jump next to a threshold position or to the end
			target := t.Pick(255, 256, 4095, 4096, 65535, 65536, N-1, N, N-3) + t.Draw(3) - 1
			if target >= m.start && target <= N {
				m.z.Move(target - m.pos)
				ctx.L.Ev("Move", int64(target-m.pos))
				m.pos = target
			}
		}
		if v := step(); v != nil {
			return v
		}
	}
	if restoreLast {
		m.z.Restore()
		ctx.L.Ev("Restore")
		if v := m.checkMem("Restore", true); v != nil {
			return v
		}
		if m.borrow {
			ctx.Count("probe_restore_after_borrow")
		}
		// after Restore the byte behind the input is the caller's again: the caller writes to it,
		// and a second Restore must not touch it any more
		if m.backing != nil && m.n < len(m.backing) {
			m.backing[m.n] ^= 0xFF
			m.snap[m.n] = m.backing[m.n]
		}
		m.z.Restore()
		if v := m.checkMem("a second Restore after the caller reused its byte", true); v != nil {
			return v
		}
	}
	return nil
}
