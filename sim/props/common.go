// Package props contains one simulated-run function per claimed property.
package props

import (
	"unicode/utf8"

	"verif/sim/core"
)

// Registry of run functions.
var Registry = map[string]core.RunFunc{}

// genData draws input bytes. Short inputs are drawn byte by byte from the
// tape (so the shrinker can simplify them); long ones come from a sub-stream
// seeded by a single draw.
func genData(t *core.Tape, n int, alphabet int) []byte {
	src := t
	if n > 96 {
		src = t.Sub()
	}
	b := make([]byte, 0, n+4)
	for len(b) < n {
		switch alphabet {
		case 0: // ASCII words
			b = append(b, "abcdefghijklmnopqrstuvwxyz ABC-_01239\n"[src.Draw(38)])
		case 1: // valid UTF-8 of all widths
			var r rune
			switch src.Draw(5) {
			case 4: // class boundaries of the encoding, and U+0000 (a valid character that looks like the terminator)
				r = []rune{0, 0x7F, 0x80, 0x7FF, 0x800, 0xD7FF, 0xE000, 0xFFFD, 0xFFFF, 0x10000, 0x10FFFF}[src.Draw(11)]
			case 0:
				r = rune('a' + src.Draw(26))
			case 1:
				r = rune(0x80 + src.Draw(0x780))
			case 2:
				r = rune(0x800 + src.Draw(0xD000-0x800))
			default:
				r = rune(0x10000 + src.Draw(0x100000))
			}
			var tmp [4]byte
			k := utf8.EncodeRune(tmp[:], r)
			if len(b)+k > n {
				b = append(b, 'z')
			} else {
				b = append(b, tmp[:k]...)
			}
		default: // arbitrary bytes incl. NUL, biased to interesting ones
			switch src.Draw(6) {
			case 0:
				b = append(b, 0)
			case 1:
				b = append(b, byte(0x80+src.Draw(0x40)))
			case 2:
				b = append(b, byte(0xC0+src.Draw(0x40)))
			default:
				b = append(b, byte(src.Draw(256)))
			}
		}
	}
	return b[:n]
}

func drawLen(t *core.Tape) int {
	switch t.Weighted(1, 4, 6, 3) {
	case 0:
		return 0
	case 1:
		return t.Range(1, 8)
	case 2:
		return t.Range(9, 64)
	default:
		return t.Range(65, 1000)
	}
}

// validRuneAt reports whether b starts with a complete, valid UTF-8 sequence.
func validRuneAt(b []byte) (rune, int, bool) {
	if len(b) == 0 {
		return 0, 0, false
	}
	r, n := utf8.DecodeRune(b)
	if r == utf8.RuneError && n <= 1 {
		return 0, 0, false
	}
	return r, n, true
}

func min(a, b int) int {
	if a < b {
		return a
	}
	return b
}
func max(a, b int) int {
	if a > b {
		return a
	}
	return b
}

func eq(a, b []byte) bool {
	if len(a) != len(b) {
		return false
	}
	for i := range a {
		if a[i] != b[i] {
			return false
		}
	}
	return true
}

func clip(b []byte) []byte {
	if len(b) > 40 {
		return b[:40]
	}
	return b
}
