//go:build !vyield

package props

// InnerYields reports whether this binary was built against the instrumented copy of the
// library (yield hook at every function entry and loop iteration).
const InnerYields = false
