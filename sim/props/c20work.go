package props

import (
	"bytes"
	"encoding/base64"
	"errors"
	"io"
	"os"
	"path/filepath"
	"reflect"
	"sort"
	stdstrconv "strconv"

	"github.com/tdewolff/parse/v2"
	"github.com/tdewolff/parse/v2/buffer"
	"github.com/tdewolff/parse/v2/css"
	"github.com/tdewolff/parse/v2/html"
	"github.com/tdewolff/parse/v2/js"
	"github.com/tdewolff/parse/v2/json"
	"github.com/tdewolff/parse/v2/strconv"
	"github.com/tdewolff/parse/v2/xml"

	"verif/sim/sched"
)

// A workload is a small deterministic program over a private instance. It
// yields to the scheduler before every public call and inside its simulated
// reader/writer/visitor, and returns its transcript: everything it observed,
// copied at the moment of observation.

type wlInput struct {
	kind int
	data []byte // private copy, with private spare capacity
	opt  int
	path string // wlBinary: a private file holding data (created by the main goroutine before the phases)
}

var wlFileSeq int

// closingStream is a private non-seekable source that owns a resource: Close is counted.
type closingStream struct {
	data   []byte
	pos    int
	closed int
}

func (s *closingStream) Read(p []byte) (int, error) {
	sched.Yield(sched.SiteRead)
	if s.pos >= len(s.data) {
		return 0, io.EOF
	}
	n := copy(p, s.data[s.pos:])
	s.pos += n
	return n, nil
}

func (s *closingStream) Close() error {
	s.closed++
	return nil
}

// closingBytes additionally exposes its content (the Bytes() shortcut of the constructor).
type closingBytes struct{ *closingStream }

func (s *closingBytes) Bytes() []byte { return s.data }

// prepareFile gives a wlBinary input its private file. Main goroutine only.
func prepareFile(in *wlInput) {
	if in.kind != wlBinary || in.path != "" {
		return
	}
	if c19Dir == "" {
		d, err := os.MkdirTemp("", "vsim-c19-")
		if err != nil {
			panic("harness: temp dir: " + err.Error())
		}
		c19Dir = d
	}
	wlFileSeq++
	in.path = filepath.Join(c19Dir, "c20-"+stdstrconv.Itoa(wlFileSeq&63)+".bin")
	if err := os.WriteFile(in.path, in.data, 0o600); err != nil {
		panic("harness: temp file: " + err.Error())
	}
}

const (
	wlCSSLex = iota
	wlCSSParse
	wlHTMLLex
	wlXMLLex
	wlJSONParse
	wlJSLex
	wlJSParse
	wlStrconv
	wlHelpers
	wlPosition
	wlInputCursor
	wlStreamLexer
	wlIndenter
	wlBinary
	wlBufferRW
	wlJSPrintOnly
	nWorkloads
)

var wlNames = [...]string{"css.Lexer", "css.Parser", "html.Lexer", "xml.Lexer", "json.Parser", "js.Lexer", "js.Parse+print+Walk", "strconv", "helpers", "Position/Error", "Input+buffer.Lexer", "StreamLexer", "Indenter", "BinaryWriter/Reader", "buffer.Writer/Reader+misc", "js.AST strings"}

// wlLang maps a workload to the corpus it draws its input from.
var wlLang = [...]int{0, 0, 1, 2, 3, 4, 4, 5, 6, 1, 6, 6, 6, 6, 6, 4}

var corpus = [][]string{
	0: { // css
		"a{color:red;margin:0 auto}", "@media screen and (min-width:100px){.x>y~z{top:-1.5e3px}}", "/* c */ @import url(\"x.css\"); b{}", ".a:not(.b)::before{content:\"\\201C\";background:url( x.png )}",
		"@font-face{font-family:x;src:url(a)}", "color:#fff;width:calc(1px + 2%)", "a{b:c!important;--v:{x}}", "@charset \"utf-8\";<!-- x --> u+0-7F", "x{y:1e}", "@supports (display:grid) and (not (display:inline-grid)){a{b:c}}",
		"a{--x:1)}b{--y:2}", "--y:];--z:{a(b)}", "a{--v: calc(1px + 2px); --w:[a b]}c{--u:(}", ":root{--main-bg:#fff;--accent: rgb(1 2 3 / 50%);--empty:;}",
		"a{\n  color : RED ;\n  background: URL(data:image/png;base64,AAAA) no-repeat\n}\n\n.b { margin:-0.5em 1E3px +.5% }", "h1,h2>h3+h4{font:12px/1.5 \"Helvetica Neue\",sans-serif}", "@keyframes k{from{left:0}50.5%{left:1px}to{left:2px}}",
		".é\\26 x{content:'\\'';width:1e+2px;u:U+26??}", "@page :first{margin:1in}@namespace svg url(http://www.w3.org/2000/svg);", "a[href^='http'],b[c|=d i]{e:f}", "@media(max-width:10px){@media print{a{b:c}}}", "div{grid-template-areas:\"a b\"\n\"c d\";}", "a{b:c;;d:e}}f{g:h", "x{color:rgb(1 2 3 / 50%);w:min(1px,2em)}", "*color:red;*zoom:1", "a{*color:red;_height:1px}", "* color:red;*é:1",
	},
	1: { // html
		"<!doctype html><html><body class=a id='b'>text &amp; more<br/></body></html>", "<script>var a = '</scr' + 'ipt>';</script><style>a{}</style>", "<a href=\"x\" {{ if .X }}disabled{{ end }}>{{ .Y }}</a>",
		"<!-- c --><p>par<![CDATA[x]]><svg><path d=\"M0 0\"/></svg>", "<input value=<%= x %> checked><?php echo 1 ?>", "<textarea>x</textarea><title>a</title><plaintext>zzz", "<div\ta\n=\n'1' b=2/>", "</ x><a b='c\x00d'>",
		"<html>\n <head>\n  <TITLE>T &lt; t</TITLE>\n  <SCRIPT type=\"text/javascript\">\n   if (a</b/) x()\n  </SCRIPT>\n </head>\n <body>\n  line\n </body>\n</html>\n", "<style>a>b{c:d}</style><STYLE media=x></StYlE>", "<math><mi>x</mi></math><svg><title>t</title><script>s</script></svg>",
		"<p>é ü 漢字 <b>bold</b>\n<i>it</i></p>", "<a {{ .Attr }} b=\"{{ .V }}\" c='<% d %>'><?= e ?></a>", "<iframe srcdoc=\"<p>x</p>\"></iframe><noscript><img></noscript>", "<textarea>\n</textarea>\n<pre>\n x</pre>", "<!DOCTYPE html PUBLIC \"-//W3C//DTD\"><?xml v?><![if IE]>", "<a/b=c/><d e=f/g>", "<script><!--\nx</script>\n--></script>",
	},
	2: { // xml
		"<?xml version=\"1.0\"?><a b=\"c\"><d/>text</a>", "<!DOCTYPE x [<!ENTITY y \"z\">]><x>&y;</x>", "<a><![CDATA[ x ]]><!-- c --></a>", "<a:b xmlns:a='u' c = \"d\" ></a:b>", "<a b='c' d=\"e\"/><?pi x?>",
		"<?xml version='1.0' encoding='UTF-8'?>\n<root>\n  <item id=\"1\">é &amp; ü</item>\n  <item id='2'/>\n</root>\n", "<!DOCTYPE a SYSTEM \"a.dtd\" [ <!ELEMENT a (b)> ]><a><b/></a>", "<a><!-- -- --><![CDATA[]]]]><![CDATA[>]]></a>", "<a b=\"<\" c='>'>text</a  >", "<x>\n\tline2\n\tline3 <y z=\"1\n2\"/>\n</x>",
	},
	3: { // json
		"{\"a\":[1,2.5e3,true,null,{\"b\":\"c\\n\"}]}", "[ ]", "{\"x\": {\"y\": [[], {}]}, \"z\": -0.1}", "\"str\"", "[1,,2]", "{\"a\":1,}", "{\"k\":\"\\u00e9\",\"l\":[false]}",
		"{\n  \"name\": \"é\",\n  \"list\": [\n    1e-7,\n    -0,\n    \"\\\"q\\\"\"\n  ]\n}\n", "[[[[[[1]]]]]]", "[[[[[[[[[[1,[2]]]]]]]]]]]", "{\"a\":{\"b\":{\"c\":{\"d\":{\"e\":{\"f\":{\"g\":{\"h\":{\"i\":{\"j\":[1,{\"k\":null}]}}}}}}}}}}", "[{\"a\":[{\"b\":[{\"c\":[{\"d\":[{\"e\":[{\"f\":[true]}]}]}]}]}]}]", "{\"a\":{\"b\":{\"c\":{}}}} x", "[\"\\ud83d\\ude00\", \"tab\\t\"]", "tru", "{\"a\" 1}", "123.5E+10",
	},
	4: { // js
		"var a = 1, b = /re/g.test(x) ? a/2 : `t${a}l`;", "function f(a,b=1,...c){ if(a) return b; else for(let i of c) yield i }", "class A extends B { #p = 1; static m(){ super.m() } get x(){return this.#p} }",
		"async () => { await x; label: while(1){ break label } }", "a = b\n++c; x = {y, [z]: 1, ...w}; try{}catch{}finally{}", "import a, {b as c} from 'm'; export default function(){}", "if (a) b; else c\nswitch(x){case 1: default:}", "x = a ?? b?.c?.[d]; 0x1F + 1_000n - .5e-3", "{\"a\":1}", "[1,\"x\",{\"y\":null}]",
		"import(\"b.js\").then(f)", "import('x'); import.meta.url; x = import(y)", "if (a) import('m'); else new.target", "yield\nimport('z')\nawait w",
		"while(a){b}", "do x; while(y)", "with(a){b=c}", "with (Math) x = cos(PI)", "debugger; throw new Error('e')", "for(var i=0;i<1;i++){}", "a=>{ let x = function*(){}; new.target }",
		"/*! license */\n/*! second */\nvar été = 1; /*! third */\nété++", "/*! bang */ x = 1\n/*! bang2 */ y = 2",
		"/*! a */", "/*! one */ f()", "/*! 1 */ /*! 2 */ /*! 3 */ /*! 4 */ a; b", "x = 1 /*! trailing */", "/*! c1 */\n/*! c2 */\n/*! c3 */\nlet q = {a: 1}", "function g(){ /*! inner */ return 1 }\n/*! outer */", "var ǩ = \"é\", 変数 = ǩ + 'ü'; /é+/gimsuy.test(変数)", "x = /[/]\\//u; y = a /é/ g; z = `a${`b${c}`}`", "// line\n/* block\n more */\nlet π = 3.14, \\u0061b = 2\nconsole.log(π)",
		"label: for (const [k, v] of Object.entries(o)) { if (!v) continue label; else break }", "x = async function* () { for await (const y of z) yield* y }", "a ||= b; c &&= d; e ??= f; g **= 2; h >>>= 1", "if (a) function f(){}; var let = 1; yield = 2", "({a, b: [c, d = 1], ...e} = f); [g, , h] = i", "new A; new A.b(c); new new D()(); a?.(b)", "export {a as b, c}; export * from 'm'; import * as n from \"n\"", "class C { static #x; static { this.#x = 1 } ['m']() {} async *g() {} }", "a\n/b/g", "return 1", "x = {get a(){return 1}, set a(v){}, async b(){}, *c(){}}", "<!-- html comment\nx-->y", "1..toString(); 08.5; 0b101; 0o17; 1e+400",
	},
	5: { // numbers
		"0", "-1", "12345678901234567890", "1.5e10", "-0.000001", "1e-400", "9223372036854775807", ".5", "1,234.56", "+7", "1e", "abc", "0.1e+2x",
		"2.5e45", "1.5e-30", "0.00000000000000000000003", "123456789012345678901234567890123456789012.5", "1e23", "8.5e-23", "4.9e-324", "1.7976931348623157e308", "1e309", "-9223372036854775808", "18446744073709551615", "0.30000000000000004", "5e-324x", "00012.500", "1_000", "3.", "٣", "1e22", "1e-22", "0.000000000000000000000123456", "99999999999999999999.99999", "12,345,678", "1.234.567,89",
	},
	6: { // free text
		"  hello \t\n world  ", "a &amp; b &#39;c&#x27; &quot;d&quot; &unknown; &lt", "text/html; charset=UTF-8; q=0.9", "data:text/plain;base64,aGVsbG8=", "data:,a%20b", "data:;charset=utf-8,hello", "data:;charset=latin1;x=y,a", "data:;a=b,%41%42", "data:;base64;q=1,QQ==", "http://x/y z?q=ä&r=1", "12.5px", "1e3em", "ÀÉÎ mixed Case", "line1\nline2\r\nline3\tcol",
		"first line\nsecond line é\nthird line 漢字 here\n\nfifth", "a\rb\r\nc\n\rd\u2028e\u2029f", "data:image/svg+xml;charset=utf-8,%3Csvg%3E", "DATA:;BASE64,QQ==", "application/json;charset=\"utf-8\" ; boundary=x", "&varphi;&#931;&#x3A3;&AMP&amp;amp;", "a &hellip; b &middot; c &CounterClockwiseContourIntegral; d &DiacriticalAcute; &amp;", "&middot;&hellip;&lt;&quot;", "url(%E2%82%AC)?a=b&c=d#frag", "-1.5e-3% +.5E2px 100", "\t\t  \n\n x \x0c y  ", "ＡＢＣ abc ÄÖÜ äöü ß ǅ", "x\x00y\x00", "0123456789abcdefghijklmnopqrstuvwxyz0123456789ABCDEFGHIJKLMNOPQRSTUVWXYZ-_.~",
	},
}

// tr is a task-private transcript. It must not synchronise with other tasks in any way the
// race detector can see: fmt (whose printer cache is a sync.Pool, i.e. a release/acquire pair
// between whichever goroutines use it) is therefore banned on the task path - with it, about
// 3 of 4 conflicting access pairs became "ordered" and the detector went blind (found with
// seeded change c20a-2, see DESIGN.md 10.2). Only strconv and append are used.
var sharedEntities = map[string][]byte{"amp": []byte("&"), "lt": []byte("<"), "gt": []byte(">"), "quot": []byte("\""), "apos": []byte("'"), "varphi": []byte("phi"), "nbsp": []byte("\u00a0")}
var sharedEntitiesXML = map[string][]byte{"amp": []byte("&"), "lt": []byte("<"), "gt": []byte(">"), "quot": []byte("\""), "apos": []byte("'")}
var sharedEntitiesLong = map[string][]byte{"amp": []byte("&"), "hellip": []byte("\u2026"), "middot": []byte("\u00b7"), "DiacriticalAcute": []byte("\u00b4"), "CounterClockwiseContourIntegral": []byte("\u2233"), "varphi": []byte("phi")}

// as many entries as the XML table, other (longer) names: what a memo keyed by a cheap fingerprint of
// the table (its size) would confuse with it
var sharedEntitiesFive = map[string][]byte{"amp": []byte("&"), "hellip": []byte("\u2026"), "middot": []byte("\u00b7"), "CounterClockwiseContourIntegral": []byte("\u2233"), "varphi": []byte("phi")}
var sharedRevEntities = map[byte][]byte{'\'': []byte("&#39;"), '"': []byte("&#34;")}

type tr struct {
	b     []byte
	held  [][]byte // slices the library handed out, kept by reference and re-read at the end
	spare [][]byte // empty ones that came with spare capacity
}

// Bytes finishes the transcript: every byte slice observed during the workload is read
// again through the reference the caller kept. Whatever it shows now is deterministic when
// the task runs alone (even where the library legitimately rewrites its input in place);
// if another task's activity changed it, the transcripts differ.
func (t *tr) Bytes() []byte {
	for i, h := range t.held {
		t.b = append(t.b, "held "...)
		t.b = stdstrconv.AppendInt(t.b, int64(i), 10)
		t.b = append(t.b, ' ')
		t.b = stdstrconv.AppendQuote(t.b, string(h))
		t.b = append(t.b, '\n')
	}
	// Finally this caller appends one byte to every slice it was handed (the Go idiom for
	// extending a value). Where the slice has spare capacity that writes into whatever lies behind
	// it - the caller's own input or memory made for this instance, harmless now that the workload
	// is over - but never into memory that anybody else can see: a value that aliases a package
	// table or a buffer shared between instances has to come with its capacity clipped.
	for _, h := range t.held {
		if cap(h) > len(h) {
			_ = append(h, 0xA5)
		}
	}
	for _, h := range t.spare {
		_ = append(h, 0xA5)
	}
	t.held, t.spare = nil, nil
	return t.b
}

func (t *tr) add(tag string, a ...interface{}) {
	t.b = append(t.b, tag...)
	for _, x := range a {
		t.b = append(t.b, ' ')
		switch v := x.(type) {
		case []byte:
			t.b = stdstrconv.AppendQuote(t.b, string(v))
			if len(v) > 0 && len(t.held) < 48 {
				t.held = append(t.held, v)
			} else if len(v) == 0 && cap(v) > 0 && len(t.spare) < 16 {
				t.spare = append(t.spare, v) // an empty value with room behind it
			}
		case string:
			t.b = append(t.b, v...)
		case error:
			if v == nil {
				t.b = append(t.b, "<nil>"...)
			} else {
				t.b = append(append(append(t.b, "err("...), v.Error()...), ')')
			}
		case nil:
			t.b = append(t.b, "<nil>"...)
		case int:
			t.b = stdstrconv.AppendInt(t.b, int64(v), 10)
		case int32:
			t.b = stdstrconv.AppendInt(t.b, int64(v), 10)
		case int64:
			t.b = stdstrconv.AppendInt(t.b, v, 10)
		case uint8:
			t.b = stdstrconv.AppendUint(t.b, uint64(v), 10)
		case uint16:
			t.b = stdstrconv.AppendUint(t.b, uint64(v), 10)
		case uint32:
			t.b = stdstrconv.AppendUint(t.b, uint64(v), 10)
		case uint64:
			t.b = stdstrconv.AppendUint(t.b, v, 10)
		case float64:
			t.b = stdstrconv.AppendFloat(t.b, v, 'g', -1, 64)
		case bool:
			t.b = stdstrconv.AppendBool(t.b, v)
		default:
			panic("harness: transcript value of unsupported type " + reflect.TypeOf(x).String())
		}
	}
	t.b = append(t.b, '\n')
}

func panicText(r interface{}) string {
	switch v := r.(type) {
	case error:
		return v.Error()
	case string:
		return v
	}
	return "panic of type " + reflect.TypeOf(r).String()
}

// yieldReader is a private chunking reader with a yield point per Read.
type yieldReader struct {
	data   []byte
	off    int
	chunk  int
	failAt int // >0: after this many bytes the reader fails with errTaskReader (0: never)
}

var errTaskReader = errors.New("task reader failed")

func (r *yieldReader) Read(p []byte) (int, error) {
	sched.Yield(sched.SiteRead)
	if r.failAt > 0 && r.off >= r.failAt {
		return 0, errTaskReader
	}
	if r.off >= len(r.data) {
		return 0, io.EOF
	}
	n := r.chunk
	if n > len(p) {
		n = len(p)
	}
	if n > len(r.data)-r.off {
		n = len(r.data) - r.off
	}
	copy(p, r.data[r.off:r.off+n])
	r.off += n
	return n, nil
}

type yieldWriter struct{ buf []byte }

func (w *yieldWriter) Write(p []byte) (int, error) {
	sched.Yield(sched.SiteWrite)
	w.buf = append(w.buf, p...)
	return len(p), nil
}

// editVisitor rewrites the nodes of the caller's own tree: variables are renamed, literals replaced.
type editVisitor struct{ inPlace bool }

func (v *editVisitor) Enter(n js.INode) js.IVisitor {
	sched.Yield(sched.SiteVisit)
	switch x := n.(type) {
	case *js.Var:
		if len(x.Data) > 0 && len(x.Data) < 40 && x.Data[0] != '$' {
			x.Data = append([]byte("$"), x.Data...)
		}
	case *js.LiteralExpr:
		switch x.TokenType {
		case js.TrueToken:
			x.Data = []byte("!0")
		case js.FalseToken:
			x.Data = []byte("!1")
		case js.NullToken:
			x.Data = []byte("void 0")
		case js.ThisToken:
			x.Data = []byte("self")
		default:
			// the bytes of any other literal are rewritten where they are: a tree's byte slices are the
			// caller's own input (or memory made for this tree), so that is the caller's to do
			if v.inPlace {
				for i, c := range x.Data {
					if c >= 'a' && c <= 'z' {
						x.Data[i] = c - 32
					}
				}
			}
		}
	}
	return v
}

func (v *editVisitor) Exit(n js.INode) {}

type recVisitor struct {
	t     *tr
	depth int
	skip  int
	n     int
}

func (v *recVisitor) Enter(n js.INode) js.IVisitor {
	sched.Yield(sched.SiteVisit)
	v.n++
	v.t.add("enter", v.depth, reflect.TypeOf(n).String())
	if v.skip > 0 && v.n%v.skip == 0 {
		return nil
	}
	v.depth++
	return v
}

func (v *recVisitor) Exit(n js.INode) {
	sched.Yield(sched.SiteVisit)
	v.depth--
	v.t.add("exit", v.depth, reflect.TypeOf(n).String())
}

func call() { sched.Yield(sched.SiteCall) }

// runWorkload executes one workload and returns its transcript. A panic of
// the library is an outcome to compare, not a failure of the check.
func runWorkload(in wlInput) []byte { return runWorkloadIn(in, nil, nil) }

// memRec remembers the caller-owned arrays a workload handed to the library, with their content
// at the moment the workload was done with them. Nobody has any business writing to them
// afterwards: the library has no goroutines of its own, so a later change means that it kept a
// reference to one caller's memory in package-level state and wrote through it on behalf of
// another caller (a buffer "donated" to a shared free list, say).
type memRec struct {
	arrs [][]byte
	sums []uint64
}

func (m *memRec) note(arrs ...[]byte) {
	m.arrs, m.sums = m.arrs[:0], m.sums[:0]
	for _, a := range arrs {
		a = a[:cap(a)]
		m.arrs = append(m.arrs, a)
		m.sums = append(m.sums, hashBytes(a))
	}
}

// changed reports the index of the first array whose content is no longer what it was.
func (m *memRec) changed() (int, int) {
	for i, a := range m.arrs {
		if hashBytes(a) != m.sums[i] {
			return i, len(a)
		}
	}
	return -1, 0
}

// bytesSrc is a source that has its data in memory already (the constructors' Bytes() shortcut).
type bytesSrc struct{ b []byte }

func (s bytesSrc) Read(p []byte) (int, error) { return 0, io.EOF }
func (s bytesSrc) Bytes() []byte              { return s.b }

// runWorkloadAfter runs a decoy workload of the same kind on another input and then the real
// one in the SAME caller-owned backing array (the caller is done with the first instance):
// a result that depends on what was parsed before - e.g. through a memo keyed by buffer
// address - shows as a transcript difference against the fresh-buffer execution.
func runWorkloadAfter(in wlInput, decoy *wlInput) []byte { return runWorkloadRec(in, decoy, nil) }

func runWorkloadRec(in wlInput, decoy *wlInput, rec *memRec) []byte {
	if decoy == nil {
		return runWorkloadIn(in, nil, rec)
	}
	n := len(in.data)
	if len(decoy.data) > n {
		n = len(decoy.data)
	}
	scratch := make([]byte, 0, n+4)
	runWorkloadIn(*decoy, scratch, nil)
	return runWorkloadIn(in, scratch, rec)
}

func runWorkloadIn(in wlInput, scratch []byte, rec *memRec) (out []byte) {
	t := &tr{}
	var d, d0 []byte
	defer func() {
		if r := recover(); r != nil {
			t.add("PANIC", panicText(r))
			out = append([]byte(nil), t.Bytes()...)
		}
		if rec != nil {
			rec.note(d0, d)
		}
	}()
	if scratch != nil {
		d = append(scratch[:0], in.data...) // the caller's reused array
	} else {
		d = append(make([]byte, 0, len(in.data)+in.opt%3), in.data...) // private copy with private spare capacity
		for i := range d[len(d):cap(d)] {
			d[len(d):cap(d)][i] = 0xA7 // whatever was in the caller's buffer before
		}
	}
	d0 = d
	switch in.kind {
	case wlCSSLex:
		l := css.NewLexer(parse.NewInputBytes(d))
		for i := 0; i < 400; i++ {
			call()
			tt, b := l.Next()
			t.add("tok", tt.String(), b)
			if tt == css.ErrorToken {
				t.add("err", l.Err())
				for k := 0; k < 2; k++ {
					call()
					t2, b2 := l.Next()
					t.add("after-error", t2.String(), b2, l.Err())
				}
				break
			}
		}
	case wlCSSParse:
		p := css.NewParser(parse.NewInputBytes(d), in.opt&1 == 1)
		for i := 0; i < 400; i++ {
			call()
			gt, tt, b := p.Next()
			t.add("gram", gt.String(), tt.String(), b, p.Offset(), p.HasParseError())
			for _, v := range p.Values() {
				t.add(" val", v.TokenType.String(), v.Data, v.String())
			}
			if gt == css.ErrorGrammar {
				t.add("err", p.Err())
				for k := 0; k < 2; k++ {
					call()
					g2, t2, b2 := p.Next()
					t.add("after-error", g2.String(), t2.String(), b2, p.Err())
				}
				break
			}
		}
	case wlHTMLLex:
		var l *html.Lexer
		switch in.opt % 5 {
		case 0, 1:
			l = html.NewLexer(parse.NewInputBytes(d))
		case 2:
			l = html.NewTemplateLexer(parse.NewInputBytes(d), html.GoTemplate)
		case 3:
			l = html.NewTemplateLexer(parse.NewInputBytes(d), html.EJSTemplate)
		default:
			l = html.NewTemplateLexer(parse.NewInputBytes(d), html.PHPTemplate)
		}
		for i := 0; i < 400; i++ {
			call()
			tt, b := l.Next()
			t.add("tok", tt.String(), b, l.Text(), l.AttrKey(), l.AttrVal(), l.HasTemplate())
			if tt == html.ErrorToken {
				t.add("err", l.Err())
				for k := 0; k < 2; k++ {
					call()
					t2, b2 := l.Next()
					t.add("after-error", t2.String(), b2, l.Err())
				}
				break
			}
		}
	case wlXMLLex:
		l := xml.NewLexer(parse.NewInputBytes(d))
		for i := 0; i < 400; i++ {
			call()
			tt, b := l.Next()
			t.add("tok", tt.String(), b, l.Text(), l.AttrVal())
			if tt == xml.ErrorToken {
				t.add("err", l.Err())
				for k := 0; k < 2; k++ {
					call()
					t2, b2 := l.Next()
					t.add("after-error", t2.String(), b2, l.Err())
				}
				break
			}
		}
	case wlJSONParse:
		p := json.NewParser(parse.NewInputBytes(d))
		for i := 0; i < 400; i++ {
			call()
			gt, b := p.Next()
			t.add("gram", gt.String(), b, p.State().String())
			if gt == json.ErrorGrammar {
				t.add("err", p.Err())
				for k := 0; k < 2; k++ {
					call()
					g2, b2 := p.Next()
					t.add("after-error", g2.String(), b2, p.State().String(), p.Err())
				}
				break
			}
		}
	case wlJSLex:
		l := js.NewLexer(parse.NewInputBytes(d))
		for i := 0; i < 400; i++ {
			call()
			tt, b := l.Next()
			t.add("tok", tt.String(), b, tt.Bytes(), js.IsNumeric(tt), js.IsPunctuator(tt), js.IsOperator(tt), js.IsIdentifierName(tt), js.IsReservedWord(tt), js.IsIdentifier(tt))
			if (tt == js.DivToken || tt == js.DivEqToken) && in.opt&1 == 1 {
				call()
				rt, rb := l.RegExp()
				t.add("regexp", rt.String(), rb)
			}
			if tt == js.ErrorToken {
				t.add("err", l.Err())
				for k := 0; k < 2; k++ {
					call()
					t2, b2 := l.Next()
					t.add("after-error", t2.String(), b2, l.Err())
				}
				break
			}
		}
	case wlJSParse:
		call()
		ast, err := js.Parse(parse.NewInputBytes(d), js.Options{WhileToFor: in.opt&1 == 1, Inline: in.opt&2 == 2})
		t.add("parse", err)
		if err == nil && ast != nil {
			call()
			t.add("string", ast.String())
			w := &yieldWriter{}
			ast.JS(w)
			t.add("js", w.buf)
			w2 := &yieldWriter{}
			e2 := ast.JSON(w2)
			t.add("json", w2.buf, e2)
			call()
			js.Walk(&recVisitor{t: t, skip: in.opt >> 2 & 7}, ast)
			t.add("scope", ast.Scope.String())
			if in.opt&32 != 0 {
				// this caller rewrites its own tree in place, as a minifier does (and as the library's
				// own Walk test does), and prints it again: nobody else's tree may notice
				call()
				js.Walk(&editVisitor{inPlace: in.opt&16 != 0}, ast)
				w3 := &yieldWriter{}
				ast.JS(w3)
				t.add("js-after-edit", w3.buf)
			}
		}
	case wlStrconv:
		call()
		i64, n1 := strconv.ParseInt(d)
		t.add("ParseInt", i64, n1)
		call()
		u64, n2 := strconv.ParseUint(d)
		t.add("ParseUint", u64, n2)
		call()
		f, n3 := strconv.ParseFloat(d)
		t.add("ParseFloat", f, n3)
		call()
		dec, n4 := strconv.ParseDecimal(d)
		t.add("ParseDecimal", dec, n4)
		call()
		seps := [][2]rune{{',', '.'}, {'.', ','}, {'\u00a0', ','}, {'\u202f', '.'}, {'\u2019', '.'}, {'\u066c', '\u066b'}, {' ', '\u00b7'}, {'_', '.'}}
		sep := seps[in.opt%len(seps)]
		num, decs, n5 := strconv.ParseNumber(d, sep[0], sep[1])
		t.add("ParseNumber", num, decs, n5)
		call()
		ai := strconv.AppendInt(nil, i64)
		t.add("AppendInt", ai)
		// the caller reuses the buffer it was given for the next number, as with any append-style API
		ai = strconv.AppendInt(ai[:0], int64(in.opt)-32)
		t.add("AppendInt-reused", ai)
		call()
		t.add("AppendInt-again", strconv.AppendInt(nil, i64), strconv.AppendInt(nil, -9223372036854775808), strconv.AppendInt(nil, 9223372036854775807))
		call()
		t.add("AppendFloat", strconv.AppendFloat(nil, f, in.opt%9))
		call()
		t.add("AppendDecimal", strconv.AppendDecimal(nil, dec, in.opt%5))
		call()
		t.add("AppendNumber", strconv.AppendNumber(nil, num, decs, 3, sep[0], sep[1]))
		call()
		t.add("AppendNumber2", strconv.AppendNumber(nil, i64, in.opt%4, 2+in.opt%3, sep[0], sep[1]))
		t.add("LenInt", strconv.LenInt(i64), strconv.LenUint(u64))
	case wlHelpers:
		cp := func() []byte { return append(make([]byte, 0, len(d)+3), d...) }
		call()
		t.add("ws", parse.ReplaceMultipleWhitespace(cp()))
		call()
		// entity tables are shared read-only configuration, as real callers keep them in
		// package-level variables; the buffers they are applied to are private
		ents, rev := sharedEntities, sharedRevEntities
		switch in.opt % 3 {
		case 1:
			ents = sharedEntitiesXML // only the five short XML names
		case 2:
			ents = sharedEntitiesLong // long HTML names
		}
		t.add("ents", parse.ReplaceEntities(cp(), ents, rev))
		// the same fixed text through every table, in an order that depends on the task
		tables := []map[string][]byte{sharedEntitiesXML, sharedEntitiesLong, sharedEntities, sharedEntitiesFive}
		for k := 0; k < 4; k++ {
			call()
			tb := tables[(k+in.opt)%4]
			t.add("ents-fixed", (k+in.opt)%4, parse.ReplaceEntities([]byte("x &amp; &hellip; &CounterClockwiseContourIntegral; &middot; &varphi; &#39; y"), tb, rev))
		}
		call()
		t.add("wsents", parse.ReplaceMultipleWhitespaceAndEntities(cp(), ents, rev))
		call()
		// one scratch buffer per "document", reused for successive attribute values of growing
		// length, as a minifier does; earlier results stay referenced and are re-read at the end
		var hb []byte
		short := cp()
		if len(short) > 6 {
			short = short[:6]
		}
		t.add("hesc-short", html.EscapeAttrVal(&hb, short, '\'', true))
		call()
		t.add("hesc", html.EscapeAttrVal(&hb, cp(), '"', in.opt&1 == 1))
		call()
		long := bytes.Repeat(cp(), 1+70/(len(d)+1))
		t.add("hesc-long", html.EscapeAttrVal(&hb, long, '"', true))
		call()
		var xb []byte
		t.add("xesc-short", xml.EscapeAttrVal(&xb, short))
		call()
		t.add("xesc", xml.EscapeAttrVal(&xb, cp()))
		call()
		t.add("xesc-long", xml.EscapeAttrVal(&xb, long))
		call()
		var cb []byte
		cd, ok := xml.EscapeCDATAVal(&cb, cp())
		t.add("cdata", cd, ok)
		call()
		enc := parse.EncodeURL(cp(), parse.URLEncodingTable)
		t.add("encurl", enc)
		call()
		t.add("decurl", parse.DecodeURL(append([]byte(nil), enc...)))
		call()
		mt, data, err := parse.DataURI(cp())
		t.add("datauri", mt, data, err)
		// every task also takes the rarer branches of this entry point on a value of its own: a
		// base64 payload and a percent-encoded one made from its data, with parameters
		call()
		own := d
		if len(own) > 24 {
			own = own[:24]
		}
		b64 := make([]byte, base64.StdEncoding.EncodedLen(len(own)))
		base64.StdEncoding.Encode(b64, own)
		mt, data, err = parse.DataURI(append([]byte("data:text/x-task;charset=utf-8;base64,"), b64...))
		t.add("datauri-b64", mt, data, err)
		call()
		mt, data, err = parse.DataURI(append([]byte("data:;p=1,"), parse.EncodeURL(append([]byte(nil), own...), parse.DataURIEncodingTable)...))
		t.add("datauri-pct", mt, data, err)
		call()
		m, params := parse.Mediatype(cp())
		keys := make([]string, 0, len(params))
		for k := range params {
			keys = append(keys, k)
		}
		sort.Strings(keys)
		t.add("mediatype", m)
		for _, k := range keys {
			t.add(" param", k, params[k])
		}
		call()
		t.add("number", parse.Number(d))
		nn, nd := parse.Dimension(d)
		t.add("dimension", nn, nd)
		call()
		t.add("lower", parse.ToLower(cp()))
		t.add("fold", parse.EqualFold(d, parse.ToLower(cp())))
		t.add("trim", parse.TrimWhitespace(cp()), parse.IsAllWhitespace(d))
		call()
		t.add("ident", css.IsIdent(cp()), css.IsURLUnquoted(cp()))
		t.add("hash", css.ToHash(d).String(), html.ToHash(d).String())
		// byte slices the library itself hands out, passed on to library functions whose
		// argument is read-only (a predicate, a lookup): plain API use, no caller-shared data
		ch := []css.Hash{css.Font_Face, css.Keyframes, css.Media, css.Supports, css.Document}[in.opt%5]
		hh := []html.Hash{html.Script, html.Style, html.Iframe, html.Title, html.Textarea}[in.opt%5]
		call()
		t.add("ident-of-hash", ch.Bytes(), css.IsIdent(ch.Bytes()), css.IsURLUnquoted(hh.Bytes()), css.ToHash(ch.Bytes()) == ch, html.ToHash(hh.Bytes()) == hh)
		t.add("jsident-of-token", js.AsIdentifierName(js.FunctionToken.Bytes()), js.IsIdentifierStart(js.AddToken.Bytes()), parse.EqualFold(hh.Bytes(), hh.Bytes()), parse.Number(ch.Bytes()))
		q, qn := parse.QuoteEntity(d)
		t.add("quoteent", q, qn)
		t.add("jsident", js.AsIdentifierName(d), js.AsDecimalLiteral(d), js.IsIdentifierStart(d), js.IsIdentifierContinue(d), js.IsIdentifierEnd(d))
		r1, g1, b1 := css.HSL2RGB(float64(in.opt)/64, float64(len(d)%7)/7, 0.5)
		t.add("hsl", r1, g1, b1)
		// Once more directly on the caller's own array (which a caller may have used for another
		// value before, and whose spare capacity the library may borrow) instead of on fresh copies:
		// whatever the library remembers about an argument by its address, or keeps of it beyond
		// the call, only shows this way.
		call()
		m2, params2 := parse.Mediatype(d)
		keys2 := make([]string, 0, len(params2))
		for k := range params2 {
			keys2 = append(keys2, k)
		}
		sort.Strings(keys2)
		t.add("mediatype-own-array", m2)
		for _, k := range keys2 {
			t.add(" param", k, params2[k])
		}
		call()
		t.add("ident-own-array", css.IsIdent(d), css.IsURLUnquoted(d))
		call()
		t.add("trim-own-array", parse.TrimWhitespace(d))
		mt2, data2, err2 := parse.DataURI(d)
		t.add("datauri-own-array", mt2, data2, err2)
	case wlPosition:
		for _, off := range []int{0, len(d) / 2, len(d), in.opt % (len(d) + 1)} {
			call()
			var rd io.Reader = &yieldReader{data: d, chunk: 1 + in.opt%5}
			if in.opt&8 != 0 {
				rd = buffer.NewReader(d) // Bytes() shortcut: the library works on the caller's array
			}
			line, col, ctx := parse.Position(rd, off)
			t.add("pos", off, line, col, ctx)
		}
		if in.opt&32 != 0 && len(d) > 1 {
			call()
			line, col, ctx := parse.Position(&yieldReader{data: d, chunk: 2, failAt: 1 + in.opt%len(d)}, len(d)/2)
			t.add("pos-failed-reader", line, col, ctx)
		}
		call()
		e := parse.NewError(&yieldReader{data: d, chunk: 3}, len(d)/3, "msg %d", in.opt)
		t.add("error", e.Error())
		l, c, x := e.Position()
		t.add("errpos", l, c, x)
		call()
		z := parse.NewInputBytes(append(make([]byte, 0, len(d)+1), d...))
		z.Move(len(d) / 2)
		t.add("errlex", parse.NewErrorLexer(z, "at %d", 1).Error())
	case wlInputCursor:
		script := func(z cursor) {
			n := 0
			for i := 0; i < 300; i++ {
				call()
				c := z.Peek(0)
				if c == 0 && z.Err() != nil {
					t.add("end", z.Err(), z.Offset())
					break
				}
				r, rn := z.PeekRune(0)
				z.Move(rn)
				n++
				if c == ' ' || n%(3+in.opt%4) == 0 {
					t.add("shift", z.Shift(), r, z.Pos())
				}
			}
			t.add("lexeme", z.Lexeme(), len(z.Bytes()))
			if bb := z.Bytes(); len(bb) < 200 {
				t.add("bytes", bb)
			}
			z.Restore()
		}
		script(parse.NewInput(&yieldReader{data: d, chunk: 1 + in.opt%7}))
		if in.opt&32 != 0 && len(d) > 1 {
			// a reader that delivers part of the data and then fails: the Input reports the
			// error with no data; whatever the library buffered must not reach anybody else
			script(parse.NewInput(&yieldReader{data: d, chunk: 1 + in.opt%3, failAt: 1 + in.opt%len(d)}))
			script(buffer.NewLexer(&yieldReader{data: d, chunk: 2, failAt: 1 + (in.opt/2)%len(d)}))
			script(parse.NewInput(&yieldReader{data: d, chunk: 5}))
		}
		script(buffer.NewLexerBytes(d))
		script(parse.NewInputString(string(d)))
	case wlStreamLexer:
		var z *buffer.StreamLexer
		every := 2 + in.opt%5
		limit := 400
		if in.opt&16 != 0 && in.opt&4 != 0 {
			// default constructor and default-sized blocks throughout: ordinary tokens, a stream of
			// several default buffers (what a shared stock of standard-size blocks would need)
			d = bytes.Repeat(append(d, ' '), 3*4096/(len(d)+1)+2+in.opt%7)
			z = buffer.NewStreamLexer(&yieldReader{data: d, chunk: []int{4096, 1000, 333, 4000}[in.opt>>5&1|in.opt&2]})
			every = 700 + 100*(in.opt%9)
			limit = 40000
		} else if in.opt&16 != 0 {
			// default constructor, reader delivering big chunks, one token longer than the
			// default buffer (forces the lexer to grow it), then ordinary tokens
			long := bytes.ReplaceAll(d, []byte(" "), []byte("_"))
			want := 5000
			if in.opt&32 != 0 {
				want = 40000 + 1000*(in.opt%8) // the default buffer grows several times under one token
			}
			long = bytes.Repeat(append(long, '_'), want/(len(long)+1)+1)
			if in.opt&32 != 0 {
				d = append(append(append([]byte{}, d...), ' '), append(long, ' ')...) // short tokens first, then the long one
			}
			d = append(append(long, ' '), d...)
			z = buffer.NewStreamLexer(&yieldReader{data: d, chunk: 1000 + in.opt})
			every = 1 << 30
			limit = 30000
			if in.opt&32 != 0 {
				limit = 200000
			}
		} else if in.opt&8 != 0 {
			z = buffer.NewStreamLexerSize(bytesSrc{d}, in.opt%9) // the data are in memory already: the lexer works on the caller's own array
		} else {
			z = buffer.NewStreamLexerSize(&yieldReader{data: d, chunk: 1 + in.opt%6}, in.opt%9)
		}
		n, lag := 0, 0
		for i := 0; i < limit; i++ {
			if i < 400 || i%64 == 0 {
				call()
			}
			c := z.Peek(0)
			if c == 0 && z.Err() != nil {
				t.add("end", z.Err())
				break
			}
			z.Move(1)
			n++
			if c == ' ' || n%every == 0 {
				b := z.Shift()
				t.add("shift", b)
				switch {
				case in.opt&1 == 1:
					z.Free(z.ShiftLen())
				case in.opt&2 == 2:
					// one token late: the previous token is released when the next one is taken
					z.Free(lag)
					lag = z.ShiftLen()
				}
			}
		}
		t.add("lexeme", z.Lexeme())
		if in.opt&1 == 1 {
			// this caller releases everything it took, the last token included
			t.add("rest", z.Shift())
			z.Free(z.ShiftLen())
		}
		call()
		z2 := buffer.NewStreamLexer(&yieldReader{data: d, chunk: 7})
		t.add("second", int(z2.Peek(0)), z2.Err())
	case wlIndenter:
		w := &yieldWriter{}
		ind := parse.NewIndenter(w, []int{1, 2, 3, 4, 8, 70, 100, 300}[in.opt%8])
		for _, part := range bytes.SplitAfter(d, []byte(" ")) {
			call()
			ind.Write(part)
		}
		ind.Write([]byte("a\nb\n\nc"))
		t.add("indented", w.buf, ind.Indent())
	case wlBinary:
		w := parse.NewBinaryWriter(nil)
		for i, c := range d {
			call()
			switch i % 4 {
			case 0:
				w.WriteUint16(uint16(c) << 3)
			case 1:
				w.WriteInt32(int32(c) * -77)
			case 2:
				w.WriteString(string(d[:i%5]))
			default:
				w.WriteUint64(uint64(c) * 0x0101010101)
			}
		}
		t.add("written", w.Bytes())
		r := parse.NewBinaryReaderBytes(w.Bytes())
		for i := range d {
			call()
			switch i % 4 {
			case 0:
				t.add("u16", r.ReadUint16())
			case 1:
				t.add("i32", r.ReadInt32())
			case 2:
				t.add("str", r.ReadString(int64(i%5)))
			default:
				t.add("u64", r.ReadUint64())
			}
		}
		t.add("end", r.ReadUint32(), r.Err(), r.Pos(), r.Len())
		bw := parse.NewBitmapWriter(nil)
		for _, c := range d {
			bw.Write(c&1 == 1)
		}
		t.add("bitmap", bw.Bytes())
		// Private sources that own a resource: each task builds readers over its own closers (a
		// non-seekable stream read to the end, a source exposing Bytes(); with this task's bytes
		// and with no bytes at all) and closes them in an order of its own. Which closer was
		// closed how often is part of the result.
		{
			enc := w.Bytes()
			srcs := []*closingStream{{data: enc}, {}, {data: enc[:len(enc)/2]}, {}}
			var rs []*parse.BinaryReader
			for i, s := range srcs {
				call()
				var br *parse.BinaryReader
				var err error
				if i%2 == in.opt%2 {
					br, err = parse.NewBinaryReaderReader(&closingBytes{s}, -1)
				} else {
					br, err = parse.NewBinaryReaderReader(s, -1)
				}
				t.add("cnew", err)
				rs = append(rs, br)
			}
			rs = append(rs, parse.NewBinaryReaderBytes(nil), parse.NewBinaryReaderBytes(enc[:0]))
			for k := range rs {
				i := (k + in.opt) % len(rs)
				call()
				if rs[i] == nil {
					continue
				}
				t.add("cread", rs[i].ReadUint16(), rs[i].Len(), rs[i].Err())
				t.add("cclose", i, rs[i].Close())
				for _, s := range srcs {
					t.add("closed", s.closed)
				}
			}
			// a reader stacked on a section of another seeker-backed reader (BinaryReader is an
			// io.ReaderAt): an embedded table parsed through its own reader
			call()
			if parent, err := parse.NewBinaryReaderReader(bytes.NewReader(enc), -1); err == nil && len(enc) >= 4 {
				sec := io.NewSectionReader(parent, 1, int64(len(enc)-2))
				child, err := parse.NewBinaryReaderReader(sec, -1)
				t.add("stacked", err)
				if err == nil {
					call()
					t.add("stackedread", child.ReadUint16(), child.Pos(), child.Len(), child.Err(), parent.ReadUint8(), parent.Pos())
				}
			}
		}
		if in.path != "" {
			// the same bytes through a private file: file-backed and memory-mapped readers
			// (an empty file included); every instance is opened, used and closed by this task
			for _, open := range []func(string) (*parse.BinaryReader, error){parse.NewBinaryReaderPath, parse.NewBinaryReaderMmapPath} {
				call()
				fr, err := open(in.path)
				if err != nil {
					t.add("open", err)
					continue
				}
				t.add("flen", fr.Len())
				for i := 0; i < 6; i++ {
					call()
					t.add("fu16", fr.ReadUint16(), fr.Pos(), fr.Err())
				}
				p := make([]byte, 3)
				n, e := fr.ReadAt(p, 0)
				t.add("freadat", p[:n], e)
				t.add("fclose", fr.Close())
			}
		}
	case wlBufferRW:
		w := buffer.NewWriter(make([]byte, 0, in.opt%7))
		for _, part := range bytes.SplitAfter(d, []byte(" ")) {
			call()
			w.Write(part)
		}
		t.add("writer", w.Bytes(), w.Len())
		r := buffer.NewReader(append([]byte(nil), w.Bytes()...))
		p := make([]byte, 1+in.opt%5)
		for i := 0; i < 200; i++ {
			call()
			n, err := r.Read(p)
			t.add("read", p[:n], err)
			if err != nil {
				break
			}
		}
		n, err := r.ReadAt(p, int64(len(d)/2))
		t.add("readat", p[:n], err, r.Len())
		r.Reset()
		n, err = r.Read(p)
		t.add("reread", p[:n], err)
		w.Reset()
		t.add("wclose", w.Close(), w.Len())
		sw := buffer.NewStaticWriter(make([]byte, 0, 4))
		n2, err2 := sw.Write(d)
		t.add("static", n2, err2, sw.Bytes())
		call()
		t.add("appendescape", parse.AppendEscape(nil, d, []byte("\"'&"), '\\'))
		t.add("copy", parse.Copy(d), parse.IsAllWhitespace(d))
		for i, c := range string(d) {
			if i > 40 {
				break
			}
			t.add("rune", parse.Printable(c), parse.IsWhitespace(byte(c)), parse.IsNewline(byte(c)))
		}
	case wlJSPrintOnly:
		call()
		ast, err := js.Parse(parse.NewInputBytes(d), js.Options{Inline: in.opt&1 == 1})
		t.add("parse", err)
		if err == nil && ast != nil {
			call()
			t.add("jsstring", ast.JSString())
			call()
			js2, e2 := ast.JSONString()
			t.add("jsonstring", js2, e2)
			for i, st := range ast.List {
				if i > 20 {
					break
				}
				call()
				t.add("stmt", st.String())
				w := &yieldWriter{}
				st.JS(w)
				t.add("stmtjs", w.buf)
			}
			for i, v := range ast.Scope.Declared {
				if i > 20 {
					break
				}
				t.add("declared", v.Name(), int(v.Decl), int(v.Uses), v.String())
			}
			byUses := append(js.VarArray{}, ast.Scope.Declared...)
			sort.Sort(js.VarsByUses(byUses))
			for i, v := range byUses {
				if i > 10 {
					break
				}
				t.add("byuses", v.Name())
			}
			for i, v := range ast.Scope.Undeclared {
				if i > 20 {
					break
				}
				t.add("undeclared", v.Name(), int(v.Decl), int(v.Uses))
			}
		}
	}
	return append([]byte(nil), t.Bytes()...)
}
