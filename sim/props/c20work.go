package props

import (
	"bytes"
	"fmt"
	"io"
	"sort"

	"github.com/tdewolff/parse/v2"
	"github.com/tdewolff/parse/v2/buffer"
	"github.com/tdewolff/parse/v2/css"
	"github.com/tdewolff/parse/v2/html"
	"github.com/tdewolff/parse/v2/js"
	"github.com/tdewolff/parse/v2/json"
	"github.com/tdewolff/parse/v2/strconv"
	"github.com/tdewolff/parse/v2/xml"

	"verif/sim/sched"
)

// A workload is a small deterministic program over a private instance. It
// yields to the scheduler before every public call and inside its simulated
// reader/writer/visitor, and returns its transcript: everything it observed,
// copied at the moment of observation.

type wlInput struct {
	kind int
	data []byte // private copy, with private spare capacity
	opt  int
}

const (
	wlCSSLex = iota
	wlCSSParse
	wlHTMLLex
	wlXMLLex
	wlJSONParse
	wlJSLex
	wlJSParse
	wlStrconv
	wlHelpers
	wlPosition
	wlInputCursor
	wlStreamLexer
	wlIndenter
	wlBinary
	nWorkloads
)

var wlNames = [...]string{"css.Lexer", "css.Parser", "html.Lexer", "xml.Lexer", "json.Parser", "js.Lexer", "js.Parse+print+Walk", "strconv", "helpers", "Position/Error", "Input+buffer.Lexer", "StreamLexer", "Indenter", "BinaryWriter/Reader"}

// wlLang maps a workload to the corpus it draws its input from.
var wlLang = [...]int{0, 0, 1, 2, 3, 4, 4, 5, 6, 1, 6, 6, 6, 6}

var corpus = [][]string{
	0: { // css
		"a{color:red;margin:0 auto}", "@media screen and (min-width:100px){.x>y~z{top:-1.5e3px}}", "/* c */ @import url(\"x.css\"); b{}", ".a:not(.b)::before{content:\"\\201C\";background:url( x.png )}",
		"@font-face{font-family:x;src:url(a)}", "color:#fff;width:calc(1px + 2%)", "a{b:c!important;--v:{x}}", "@charset \"utf-8\";<!-- x --> u+0-7F", "x{y:1e}", "@supports (display:grid) and (not (display:inline-grid)){a{b:c}}",
	},
	1: { // html
		"<!doctype html><html><body class=a id='b'>text &amp; more<br/></body></html>", "<script>var a = '</scr' + 'ipt>';</script><style>a{}</style>", "<a href=\"x\" {{ if .X }}disabled{{ end }}>{{ .Y }}</a>",
		"<!-- c --><p>par<![CDATA[x]]><svg><path d=\"M0 0\"/></svg>", "<input value=<%= x %> checked><?php echo 1 ?>", "<textarea>x</textarea><title>a</title><plaintext>zzz", "<div\ta\n=\n'1' b=2/>", "</ x><a b='c\x00d'>",
	},
	2: { // xml
		"<?xml version=\"1.0\"?><a b=\"c\"><d/>text</a>", "<!DOCTYPE x [<!ENTITY y \"z\">]><x>&y;</x>", "<a><![CDATA[ x ]]><!-- c --></a>", "<a:b xmlns:a='u' c = \"d\" ></a:b>", "<a b='c' d=\"e\"/><?pi x?>",
	},
	3: { // json
		"{\"a\":[1,2.5e3,true,null,{\"b\":\"c\\n\"}]}", "[ ]", "{\"x\": {\"y\": [[], {}]}, \"z\": -0.1}", "\"str\"", "[1,,2]", "{\"a\":1,}", "{\"k\":\"\\u00e9\",\"l\":[false]}",
	},
	4: { // js
		"var a = 1, b = /re/g.test(x) ? a/2 : `t${a}l`;", "function f(a,b=1,...c){ if(a) return b; else for(let i of c) yield i }", "class A extends B { #p = 1; static m(){ super.m() } get x(){return this.#p} }",
		"async () => { await x; label: while(1){ break label } }", "a = b\n++c; x = {y, [z]: 1, ...w}; try{}catch{}finally{}", "import a, {b as c} from 'm'; export default function(){}", "if (a) b; else c\nswitch(x){case 1: default:}", "x = a ?? b?.c?.[d]; 0x1F + 1_000n - .5e-3", "{\"a\":1}", "[1,\"x\",{\"y\":null}]",
		"while(a){b}", "do x; while(y)", "for(var i=0;i<1;i++){}", "a=>{ let x = function*(){}; new.target }",
	},
	5: { // numbers
		"0", "-1", "12345678901234567890", "1.5e10", "-0.000001", "1e-400", "9223372036854775807", ".5", "1,234.56", "+7", "1e", "abc", "0.1e+2x",
	},
	6: { // free text
		"  hello \t\n world  ", "a &amp; b &#39;c&#x27; &quot;d&quot; &unknown; &lt", "text/html; charset=UTF-8; q=0.9", "data:text/plain;base64,aGVsbG8=", "data:,a%20b", "http://x/y z?q=ä&r=1", "12.5px", "1e3em", "ÀÉÎ mixed Case", "line1\nline2\r\nline3\tcol",
	},
}

type tr struct{ bytes.Buffer }

func (t *tr) add(tag string, a ...interface{}) {
	t.WriteString(tag)
	for _, x := range a {
		switch v := x.(type) {
		case []byte:
			fmt.Fprintf(&t.Buffer, " %q", v)
		case error:
			if v == nil {
				t.WriteString(" <nil>")
			} else {
				fmt.Fprintf(&t.Buffer, " err(%s)", v.Error())
			}
		default:
			fmt.Fprintf(&t.Buffer, " %v", v)
		}
	}
	t.WriteByte('\n')
}

// yieldReader is a private chunking reader with a yield point per Read.
type yieldReader struct {
	data  []byte
	off   int
	chunk int
}

func (r *yieldReader) Read(p []byte) (int, error) {
	sched.Yield(sched.SiteRead)
	if r.off >= len(r.data) {
		return 0, io.EOF
	}
	n := r.chunk
	if n > len(p) {
		n = len(p)
	}
	if n > len(r.data)-r.off {
		n = len(r.data) - r.off
	}
	copy(p, r.data[r.off:r.off+n])
	r.off += n
	return n, nil
}

type yieldWriter struct{ buf []byte }

func (w *yieldWriter) Write(p []byte) (int, error) {
	sched.Yield(sched.SiteWrite)
	w.buf = append(w.buf, p...)
	return len(p), nil
}

type recVisitor struct {
	t     *tr
	depth int
	skip  int
	n     int
}

func (v *recVisitor) Enter(n js.INode) js.IVisitor {
	sched.Yield(sched.SiteVisit)
	v.n++
	v.t.add("enter", v.depth, fmt.Sprintf("%T", n))
	if v.skip > 0 && v.n%v.skip == 0 {
		return nil
	}
	v.depth++
	return v
}

func (v *recVisitor) Exit(n js.INode) {
	sched.Yield(sched.SiteVisit)
	v.depth--
	v.t.add("exit", v.depth, fmt.Sprintf("%T", n))
}

func call() { sched.Yield(sched.SiteCall) }

// runWorkload executes one workload and returns its transcript. A panic of
// the library is an outcome to compare, not a failure of the check.
func runWorkload(in wlInput) (out []byte) {
	t := &tr{}
	defer func() {
		if r := recover(); r != nil {
			t.add("PANIC", fmt.Sprint(r))
			out = append([]byte(nil), t.Bytes()...)
		}
	}()
	d := append(make([]byte, 0, len(in.data)+in.opt%3), in.data...) // private copy with private spare capacity
	switch in.kind {
	case wlCSSLex:
		l := css.NewLexer(parse.NewInputBytes(d))
		for i := 0; i < 400; i++ {
			call()
			tt, b := l.Next()
			t.add("tok", tt.String(), b)
			if tt == css.ErrorToken {
				t.add("err", l.Err())
				break
			}
		}
	case wlCSSParse:
		p := css.NewParser(parse.NewInputBytes(d), in.opt&1 == 1)
		for i := 0; i < 400; i++ {
			call()
			gt, tt, b := p.Next()
			t.add("gram", gt.String(), tt.String(), b, p.Offset(), p.HasParseError())
			for _, v := range p.Values() {
				t.add(" val", v.TokenType.String(), v.Data)
			}
			if gt == css.ErrorGrammar {
				t.add("err", p.Err())
				break
			}
		}
	case wlHTMLLex:
		var l *html.Lexer
		switch in.opt % 5 {
		case 0, 1:
			l = html.NewLexer(parse.NewInputBytes(d))
		case 2:
			l = html.NewTemplateLexer(parse.NewInputBytes(d), html.GoTemplate)
		case 3:
			l = html.NewTemplateLexer(parse.NewInputBytes(d), html.EJSTemplate)
		default:
			l = html.NewTemplateLexer(parse.NewInputBytes(d), html.PHPTemplate)
		}
		for i := 0; i < 400; i++ {
			call()
			tt, b := l.Next()
			t.add("tok", tt.String(), b, l.Text(), l.AttrKey(), l.AttrVal(), l.HasTemplate())
			if tt == html.ErrorToken {
				t.add("err", l.Err())
				break
			}
		}
	case wlXMLLex:
		l := xml.NewLexer(parse.NewInputBytes(d))
		for i := 0; i < 400; i++ {
			call()
			tt, b := l.Next()
			t.add("tok", tt.String(), b, l.Text(), l.AttrVal())
			if tt == xml.ErrorToken {
				t.add("err", l.Err())
				break
			}
		}
	case wlJSONParse:
		p := json.NewParser(parse.NewInputBytes(d))
		for i := 0; i < 400; i++ {
			call()
			gt, b := p.Next()
			t.add("gram", gt.String(), b, p.State().String())
			if gt == json.ErrorGrammar {
				t.add("err", p.Err())
				break
			}
		}
	case wlJSLex:
		l := js.NewLexer(parse.NewInputBytes(d))
		for i := 0; i < 400; i++ {
			call()
			tt, b := l.Next()
			t.add("tok", tt.String(), b)
			if (tt == js.DivToken || tt == js.DivEqToken) && in.opt&1 == 1 {
				call()
				rt, rb := l.RegExp()
				t.add("regexp", rt.String(), rb)
			}
			if tt == js.ErrorToken {
				t.add("err", l.Err())
				break
			}
		}
	case wlJSParse:
		call()
		ast, err := js.Parse(parse.NewInputBytes(d), js.Options{WhileToFor: in.opt&1 == 1, Inline: in.opt&2 == 2})
		t.add("parse", err)
		if err == nil && ast != nil {
			call()
			t.add("string", ast.String())
			w := &yieldWriter{}
			ast.JS(w)
			t.add("js", w.buf)
			w2 := &yieldWriter{}
			e2 := ast.JSON(w2)
			t.add("json", w2.buf, e2)
			call()
			js.Walk(&recVisitor{t: t, skip: in.opt >> 2 & 7}, ast)
			t.add("scope", ast.Scope.String())
		}
	case wlStrconv:
		call()
		i64, n1 := strconv.ParseInt(d)
		t.add("ParseInt", i64, n1)
		call()
		u64, n2 := strconv.ParseUint(d)
		t.add("ParseUint", u64, n2)
		call()
		f, n3 := strconv.ParseFloat(d)
		t.add("ParseFloat", f, n3)
		call()
		dec, n4 := strconv.ParseDecimal(d)
		t.add("ParseDecimal", dec, n4)
		call()
		num, decs, n5 := strconv.ParseNumber(d, ',', '.')
		t.add("ParseNumber", num, decs, n5)
		call()
		t.add("AppendInt", strconv.AppendInt(nil, i64))
		call()
		t.add("AppendFloat", strconv.AppendFloat(nil, f, in.opt%9))
		call()
		t.add("AppendDecimal", strconv.AppendDecimal(nil, dec, in.opt%5))
		call()
		t.add("AppendNumber", strconv.AppendNumber(nil, num, decs, 3, ',', '.'))
		t.add("LenInt", strconv.LenInt(i64), strconv.LenUint(u64))
	case wlHelpers:
		cp := func() []byte { return append(make([]byte, 0, len(d)+3), d...) }
		call()
		t.add("ws", parse.ReplaceMultipleWhitespace(cp()))
		call()
		ents := map[string][]byte{"amp": []byte("&"), "lt": []byte("<"), "quot": []byte("\""), "varphi": []byte("phi")}
		rev := map[byte][]byte{'\'': []byte("&#39;"), '"': []byte("&#34;")}
		t.add("ents", parse.ReplaceEntities(cp(), ents, rev))
		call()
		t.add("wsents", parse.ReplaceMultipleWhitespaceAndEntities(cp(), ents, rev))
		call()
		var hb []byte
		t.add("hesc", html.EscapeAttrVal(&hb, cp(), '"', in.opt&1 == 1))
		call()
		var xb []byte
		t.add("xesc", xml.EscapeAttrVal(&xb, cp()))
		call()
		var cb []byte
		cd, ok := xml.EscapeCDATAVal(&cb, cp())
		t.add("cdata", cd, ok)
		call()
		enc := parse.EncodeURL(cp(), parse.URLEncodingTable)
		t.add("encurl", enc)
		call()
		t.add("decurl", parse.DecodeURL(append([]byte(nil), enc...)))
		call()
		mt, data, err := parse.DataURI(cp())
		t.add("datauri", mt, data, err)
		call()
		m, params := parse.Mediatype(cp())
		keys := make([]string, 0, len(params))
		for k := range params {
			keys = append(keys, k)
		}
		sort.Strings(keys)
		t.add("mediatype", m)
		for _, k := range keys {
			t.add(" param", k, params[k])
		}
		call()
		t.add("number", parse.Number(d))
		nn, nd := parse.Dimension(d)
		t.add("dimension", nn, nd)
		call()
		t.add("lower", parse.ToLower(cp()))
		t.add("fold", parse.EqualFold(d, parse.ToLower(cp())))
		t.add("trim", parse.TrimWhitespace(cp()), parse.IsAllWhitespace(d))
		call()
		t.add("ident", css.IsIdent(cp()), css.IsURLUnquoted(cp()))
		t.add("hash", css.ToHash(d).String(), html.ToHash(d).String())
		q, qn := parse.QuoteEntity(d)
		t.add("quoteent", q, qn)
		t.add("jsident", js.AsIdentifierName(d), js.AsDecimalLiteral(d), js.IsIdentifierStart(d), js.IsIdentifierContinue(d))
	case wlPosition:
		for _, off := range []int{0, len(d) / 2, len(d), in.opt % (len(d) + 1)} {
			call()
			line, col, ctx := parse.Position(&yieldReader{data: d, chunk: 1 + in.opt%5}, off)
			t.add("pos", off, line, col, ctx)
		}
		call()
		e := parse.NewError(&yieldReader{data: d, chunk: 3}, len(d)/3, "msg %d", in.opt)
		t.add("error", e.Error())
		l, c, x := e.Position()
		t.add("errpos", l, c, x)
		call()
		z := parse.NewInputBytes(append(make([]byte, 0, len(d)+1), d...))
		z.Move(len(d) / 2)
		t.add("errlex", parse.NewErrorLexer(z, "at %d", 1).Error())
	case wlInputCursor:
		script := func(z cursor) {
			n := 0
			for i := 0; i < 300; i++ {
				call()
				c := z.Peek(0)
				if c == 0 && z.Err() != nil {
					t.add("end", z.Err(), z.Offset())
					break
				}
				r, rn := z.PeekRune(0)
				z.Move(rn)
				n++
				if c == ' ' || n%(3+in.opt%4) == 0 {
					t.add("shift", z.Shift(), r, z.Pos())
				}
			}
			t.add("lexeme", z.Lexeme(), len(z.Bytes()))
			z.Restore()
		}
		script(parse.NewInput(&yieldReader{data: d, chunk: 1 + in.opt%7}))
		script(buffer.NewLexerBytes(append(make([]byte, 0, len(d)+2), d...)))
		script(parse.NewInputString(string(d)))
	case wlStreamLexer:
		z := buffer.NewStreamLexerSize(&yieldReader{data: d, chunk: 1 + in.opt%6}, in.opt%9)
		n := 0
		for i := 0; i < 400; i++ {
			call()
			c := z.Peek(0)
			if c == 0 && z.Err() != nil {
				t.add("end", z.Err())
				break
			}
			z.Move(1)
			n++
			if c == ' ' || n%(2+in.opt%5) == 0 {
				b := z.Shift()
				t.add("shift", b)
				if in.opt&1 == 1 {
					z.Free(z.ShiftLen())
				}
			}
		}
		t.add("lexeme", z.Lexeme())
	case wlIndenter:
		w := &yieldWriter{}
		ind := parse.NewIndenter(w, 1+in.opt%4)
		for _, part := range bytes.SplitAfter(d, []byte(" ")) {
			call()
			ind.Write(part)
		}
		ind.Write([]byte("a\nb\n\nc"))
		t.add("indented", w.buf, ind.Indent())
	case wlBinary:
		w := parse.NewBinaryWriter(nil)
		for i, c := range d {
			call()
			switch i % 4 {
			case 0:
				w.WriteUint16(uint16(c) << 3)
			case 1:
				w.WriteInt32(int32(c) * -77)
			case 2:
				w.WriteString(string(d[:i%5]))
			default:
				w.WriteUint64(uint64(c) * 0x0101010101)
			}
		}
		t.add("written", w.Bytes())
		r := parse.NewBinaryReaderBytes(w.Bytes())
		for i := range d {
			call()
			switch i % 4 {
			case 0:
				t.add("u16", r.ReadUint16())
			case 1:
				t.add("i32", r.ReadInt32())
			case 2:
				t.add("str", r.ReadString(int64(i%5)))
			default:
				t.add("u64", r.ReadUint64())
			}
		}
		t.add("end", r.ReadUint32(), r.Err(), r.Pos(), r.Len())
		bw := parse.NewBitmapWriter(nil)
		for _, c := range d {
			bw.Write(c&1 == 1)
		}
		t.add("bitmap", bw.Bytes())
	}
	return append([]byte(nil), t.Bytes()...)
}
