package props

import (
	"fmt"
	"io"
	"os"
	"reflect"
	"runtime"

	"github.com/tdewolff/parse/v2/buffer"

	"verif/sim/core"
	"verif/sim/faultio"
)

func init() { Registry["C13"] = RunC13 }

// held is a slice handed out by Shift or Lexeme, with a private copy.
type held struct {
	s     []byte
	copy  []byte
	T     int // guaranteed unchanged while freed < T
	kind  string
	swaps int // refills survived
}

type c13 struct {
	ctx          *core.Ctx
	z            *buffer.StreamLexer
	rd           *faultio.Reader // nil in Bytes() shortcut mode
	vis          []byte
	failInjected bool
	endErr       error
	shortcut     bool

	start, pos              int // absolute offsets into vis
	peeked                  int // bytes [0,peeked) are known to have been asked for
	endPeeked               bool
	shifted, freed, sinceSL int

	helds   []held
	opCount int
	facts   string

	// reflection probes
	rv        reflect.Value
	probesOK  bool
	lastPtr   uintptr
	lastPool  int
	lastCap   int
	lastReads int
}

func (m *c13) viol(class, f string, a ...interface{}) *core.Violation {
	return m.ctx.Viol("C13/"+class, m.facts, f, a...)
}

func (m *c13) reads() int {
	if m.rd == nil {
		return 0
	}
	return m.rd.Reads
}

// memHeld returns the bytes held by the lexer (current buffer + pool blocks).
func (m *c13) memHeld() (int, bool) {
	if !m.probesOK {
		return 0, false
	}
	total := m.rv.FieldByName("buf").Cap()
	pool := m.rv.FieldByName("pool").FieldByName("pool")
	total += pool.Cap() * 48
	for i := 0; i < pool.Len(); i++ {
		total += pool.Index(i).FieldByName("buf").Cap()
	}
	return total, true
}

var debugGiant = os.Getenv("VERIF_C13_GIANT") != ""

// liveHeap returns the live heap after a forced collection.
func liveHeap() uint64 {
	runtime.GC()
	var ms runtime.MemStats
	runtime.ReadMemStats(&ms)
	return ms.HeapAlloc
}

func (m *c13) initProbes() {
	m.rv = reflect.ValueOf(m.z).Elem()
	b := m.rv.FieldByName("buf")
	p := m.rv.FieldByName("pool")
	if b.IsValid() && b.Kind() == reflect.Slice && p.IsValid() && p.Kind() == reflect.Struct {
		pp := p.FieldByName("pool")
		if pp.IsValid() && pp.Kind() == reflect.Slice {
			ok := true
			if pp.Type().Elem().Kind() != reflect.Struct {
				ok = false
			} else if f, has := pp.Type().Elem().FieldByName("buf"); !has || f.Type.Kind() != reflect.Slice {
				ok = false
			}
			m.probesOK = ok
		}
	}
	if os.Getenv("VERIF_NO_REFLECT") != "" {
		m.probesOK = false // test switch: exercise the reflection-free fallback
	}
	if m.probesOK {
		m.snap()
	} else {
		m.ctx.Count("probe_reflection_unavailable")
	}
}

func (m *c13) snap() {
	b := m.rv.FieldByName("buf")
	m.lastPtr = b.Pointer()
	m.lastCap = b.Cap()
	m.lastPool = m.rv.FieldByName("pool").FieldByName("pool").Len()
	m.lastReads = m.reads()
}

// afterOp classifies a refill (probe counters + signature) and verifies every
// live held slice.
func (m *c13) afterOp(op int) *core.Violation {
	refill := 0
	if m.reads() != m.lastReads {
		refill = 1
		m.ctx.Count("probe_refill")
		if m.start < m.pos {
			m.ctx.Count("probe_refill_unfinished_token")
			m.ctx.NonT = true
		}
		if m.probesOK {
			b := m.rv.FieldByName("buf")
			pl := m.rv.FieldByName("pool").FieldByName("pool").Len()
			switch {
			case b.Pointer() == m.lastPtr:
				refill = 2
				m.ctx.Count("probe_refill_inplace")
			case pl == m.lastPool:
				refill = 3
				m.ctx.Count("probe_refill_reuse_pool_block")
			default:
				refill = 4
				m.ctx.Count("probe_refill_fresh_alloc")
			}
			if b.Cap() > m.lastCap {
				m.ctx.Count("probe_buffer_growth")
			}
		}
		for i := range m.helds {
			m.helds[i].swaps++
		}
	}
	if os.Getenv("VERIF_NO_REFLECT") != "" {
		m.probesOK = false // test switch: exercise the reflection-free fallback
	}
	if m.probesOK {
		m.snap()
	} else {
		m.lastReads = m.reads()
	}
	m.ctx.SigAdd(uint64(op)<<8 | uint64(refill))
	// held-slice integrity: the library writes buffer memory only while reading, so every
	// held slice is compared after each operation that caused a Read and after Shift/Free/
	// ShiftLen, and otherwise on every 8th operation (and always for short histories)
	m.opCount++
	if refill == 0 && op != opShift && op != opShiftExt && op != opFree && op != opShiftLen && m.opCount > 64 && m.opCount%8 != 0 {
		return nil
	}
	j := 0
	for i := range m.helds {
		h := &m.helds[i]
		if m.freed >= h.T {
			m.ctx.Count("probe_held_expired")
			continue
		}
		if !eq(h.s, h.copy) {
			return m.viol("held-slice-changed", "%s slice handed out with %d bytes shifted changed from %q to %q after op %s although only %d bytes were freed (survived %d refills)",
				h.kind, h.T, clip(h.copy), clip(h.s), opNames[op], m.freed, h.swaps)
		}
		if h.swaps > 0 && refill != 0 {
			m.ctx.Count("probe_held_verified_after_swap")
		}
		m.helds[j] = *h
		j++
	}
	m.helds = m.helds[:j]
	return nil
}

func (m *c13) hold(s []byte, T int, kind string) {
	if len(s) == 0 {
		return
	}
	if len(m.helds) >= 24 {
		k := len(m.helds) / 2
		m.helds = append(m.helds[:k], m.helds[k+1:]...)
	}
	m.helds = append(m.helds, held{s: s, copy: append([]byte(nil), s...), T: T, kind: kind})
}

const (
	opPeek = iota
	opMoveF
	opMoveB
	opShift
	opLexeme
	opSkip
	opRewind
	opPos
	opErr
	opShiftLen
	opFree
	opPeekRune
	opShiftExt
	opScan
	nOps13
)

var opNames = [...]string{"Peek", "Move+", "Move-", "Shift", "Lexeme", "Skip", "Rewind", "Pos", "Err", "ShiftLen", "Free", "PeekRune", "Move+Shift(unpeeked)", "Scan"}

func (m *c13) want(abs int) byte {
	if abs >= 0 && abs < len(m.vis) {
		return m.vis[abs]
	}
	return 0
}

func (m *c13) doPeek(i int) *core.Violation {
	abs := m.pos + i
	got := m.z.Peek(i)
	m.ctx.L.Ev("Peek", int64(i), int64(got))
	if got != m.want(abs) {
		return m.viol("peek-wrong", "Peek(%d) at pos %d (abs %d of %d) = %#x, cursor over the whole input gives %#x", i, m.pos-m.start, abs, len(m.vis), got, m.want(abs))
	}
	if abs >= len(m.vis) {
		m.endPeeked = true
		m.peeked = len(m.vis)
	} else if abs+1 > m.peeked {
		m.peeked = abs + 1
	}
	return m.afterOp(opPeek)
}

func (m *c13) doErr() *core.Violation {
	e := m.z.Err()
	code := int64(0)
	if e == io.EOF {
		code = 1
	} else if e != nil {
		code = 2
	}
	m.ctx.L.Ev("Err", code)
	var rdErr error
	if m.rd != nil {
		rdErr = m.rd.ErrReturned
	} else {
		rdErr = io.EOF
	}
	if m.pos < len(m.vis) {
		if e == nil {
			// fine
		} else if rdErr != nil && rdErr != io.EOF && e == rdErr {
			m.ctx.Count("probe_err_visible_early")
		} else {
			return m.viol("err-while-data-remain", "Err() = %v at abs %d of %d readable bytes (reader has returned: %v)", e, m.pos, len(m.vis), rdErr)
		}
	} else {
		if e == nil {
			if m.endPeeked {
				return m.viol("err-nil-at-end", "Err() = nil at the end (abs %d) after Peek returned 0 for the end", m.pos)
			}
		} else {
			if e != m.endErr {
				return m.viol("err-wrong", "Err() = %v at the end, want %v", e, m.endErr)
			}
			if rdErr == nil {
				return m.viol("err-from-nowhere", "Err() = %v but the reader has not returned an error yet", e)
			}
			m.ctx.Count("probe_err_at_end")
		}
	}
	return m.afterOp(opErr)
}

func (m *c13) doShift(ext bool) *core.Violation {
	b := m.z.Shift()
	m.ctx.L.EvB("Shift", b)
	want := m.vis[m.start:m.pos]
	if !eq(b, want) {
		return m.viol("shift-wrong", "Shift() = %q (len %d), want %q (len %d) = input[%d:%d]", clip(b), len(b), clip(want), len(want), m.start, m.pos)
	}
	n := m.pos - m.start
	m.shifted += n
	m.sinceSL += n
	m.start = m.pos
	if m.pos > m.peeked {
		m.peeked = m.pos
	}
	m.hold(b, m.shifted, "Shift")
	op := opShift
	if ext {
		op = opShiftExt
	}
	return m.afterOp(op)
}

func (m *c13) doLexeme() *core.Violation {
	b := m.z.Lexeme()
	m.ctx.L.EvB("Lexeme", b)
	want := m.vis[m.start:m.pos]
	if !eq(b, want) {
		return m.viol("lexeme-wrong", "Lexeme() = %q, want %q = input[%d:%d]", clip(b), clip(want), m.start, m.pos)
	}
	m.hold(b, m.shifted, "Lexeme")
	return m.afterOp(opLexeme)
}

func (m *c13) doPos() *core.Violation {
	p := m.z.Pos()
	m.ctx.L.Ev("Pos", int64(p))
	if p != m.pos-m.start {
		return m.viol("pos-wrong", "Pos() = %d, want %d", p, m.pos-m.start)
	}
	return m.afterOp(opPos)
}

func (m *c13) doShiftLen() *core.Violation {
	n := m.z.ShiftLen()
	m.ctx.L.Ev("ShiftLen", int64(n))
	if n != m.sinceSL {
		return m.viol("shiftlen-wrong", "ShiftLen() = %d, but %d bytes were shifted or skipped since the previous call (total shifted %d, %d reads so far)", n, m.sinceSL, m.shifted, m.reads())
	}
	m.sinceSL = 0
	return m.afterOp(opShiftLen)
}

func (m *c13) doFree(n int) *core.Violation {
	m.z.Free(n)
	m.freed += n
	m.ctx.L.Ev("Free", int64(n))
	return m.afterOp(opFree)
}

func (m *c13) doMove(n int) *core.Violation {
	m.z.Move(n)
	m.pos += n
	m.ctx.L.Ev("Move", int64(n))
	if n >= 0 {
		return m.afterOp(opMoveF)
	}
	return m.afterOp(opMoveB)
}

func (m *c13) doPeekRune(i int) *core.Violation {
	abs := m.pos + i
	wr, wn, ok := validRuneAt(m.vis[abs:])
	if !ok {
		return nil
	}
	r, n := m.z.PeekRune(i)
	m.ctx.L.Ev("PeekRune", int64(i), int64(r), int64(n))
	if r != wr || n != wn {
		return m.viol("peekrune-wrong", "PeekRune(%d) at abs %d = (%U,%d), unicode/utf8 gives (%U,%d) for % x", i, abs, r, n, wr, wn, m.vis[abs:abs+wn])
	}
	if abs+wn > m.peeked {
		m.peeked = abs + wn
	}
	if wn > 1 {
		m.ctx.Count("probe_peekrune_multibyte")
	}
	return m.afterOp(opPeekRune)
}

// RunC13 is one simulated execution for property C13.
func RunC13(ctx *core.Ctx) *core.Violation {
	t := ctx.T
	if t.Weighted(14, 1) == 1 {
		return runC13Memory(ctx)
	}
	m := &c13{ctx: ctx}
	size := t.Pick(0, 1, 2, 3, 4, 5, 7, 8, 13, 16, 64, 4096)
	if t.Chance(1, 5) {
		size = t.Pick(t.Draw(130), 255, 256, 1000, 9000)
	}
	defCtor := t.Chance(1, 12)
	m.shortcut = t.Chance(1, 16)
	n := drawLen(t)
	if t.Chance(1, 14) {
		n = t.Range(1001, 12000) // long enough to refill the default 4 KiB buffer several times
		ctx.Count("probe_long_input")
	}
	huge := t.Chance(1, 400)
	if huge {
		n = t.Pick(16384, 20000, 65536, 70000) + t.Draw(3) - 1
		ctx.Count("probe_huge_input")
	}
	// a stream of hundreds of KiB made of short tokens with a very long one now and then (a
	// source file with an embedded blob): the buffer grows under the long token, and the
	// stream is long enough for several refills of the grown buffer afterwards
	giant := huge && t.Chance(1, 3)
	if debugGiant {
		huge, giant = true, true // development aid (VERIF_C13_GIANT=1): only the rare giant-stream shape
	}
	if giant {
		n = t.Pick(150000, 300000) + t.Draw(3) - 1
		size = t.Pick(4096, 32768, 32768, size)
		ctx.Count("probe_giant_mixed_stream")
	}
	alphabet := t.Draw(3)
	data := genData(t, n, alphabet)
	plan := faultio.DrawPlan(t, n, t.Chance(1, 2))
	discipline := t.Draw(5)
	delay := t.Range(1, 4)
	allowExt := t.Chance(1, 4)
	maxLA := t.Pick(1, 2, 4, 9, 40, 200)
	maxTok := t.Pick(1, 3, 8, 20, 70, 400)
	if huge || t.Chance(1, 60) {
		maxTok = t.Pick(2048, 2049, 4095, 4096, 4097, 5000, 9000) // tokens around and beyond the growth edge of the default buffer
		if giant || huge && n > 60000 && t.Chance(1, 2) {
			maxTok = t.Pick(17000, 33000, 40000) // one token of tens of KiB among short ones: the buffer grows several times under it
			ctx.Count("probe_very_long_tokens")
		}
	}
	stopN := t.Pick(8, 32, 128)
	drain := giant || t.Chance(1, 2)
	if giant && t.Chance(1, 2) {
		// the shape itself: tokens released a few tokens late, and nothing but the token walk
		discipline, stopN = 3, 1
		if t.Chance(1, 2) {
			plan.Chunk = faultio.ChunkFull // a source that always fills the buffer it is given (a file)
		}
	}
	// swarm: op mask
	var w [nOps13]int
	base := [nOps13]int{opPeek: 6, opMoveF: 6, opMoveB: 1, opShift: 4, opLexeme: 2, opSkip: 1, opRewind: 1, opPos: 1, opErr: 2, opShiftLen: 2, opFree: 2, opPeekRune: 2, opShiftExt: 1, opScan: 5}
	for i := range w {
		w[i] = base[i]
		if i > opShift && t.Chance(1, 4) {
			w[i] = 0
		}
	}
	if !allowExt {
		w[opShiftExt] = 0
	}

	if m.shortcut {
		plan.FailAt = -1
	}
	m.rd = faultio.NewReader(ctx, data, plan)
	m.vis = m.rd.Visible()
	m.failInjected = plan.FailAt >= 0
	m.endErr = io.EOF
	if m.failInjected {
		m.endErr = plan.Err
	}
	m.facts = fmt.Sprintf("size=%d", size)
	ctx.Describe("C13 normal: size=%d defaultCtor=%v bytesShortcut=%v len=%d alphabet=%d data=%q", size, defCtor, m.shortcut, n, alphabet, clip(data))
	ctx.Describe("reader plan: chunk=%d fixed=%d eofStyle=%d zeroReads=%v failAt=%d failWithData=%v err=%v", plan.Chunk, plan.Fixed, plan.EOFStyle, plan.ZeroReads, plan.FailAt, plan.FailWith, plan.Err)
	ctx.Describe("free discipline=%d delay=%d shiftExtended=%v maxLA=%d maxTok=%d", discipline, delay, allowExt, maxLA, maxTok)

	switch {
	case m.shortcut:
		src := faultio.BytesReader{Reader: m.rd}
		m.rd = nil
		if defCtor {
			m.z = buffer.NewStreamLexer(src)
		} else {
			m.z = buffer.NewStreamLexerSize(src, size)
		}
	case defCtor:
		m.z = buffer.NewStreamLexer(m.rd)
	default:
		m.z = buffer.NewStreamLexerSize(m.rd, size)
	}
	m.initProbes()

	var pendingFree []int // delayed discipline
	afterShift := func(n int) *core.Violation {
		switch discipline {
		case 1: // Free(ShiftLen())
			if v := m.doShiftLen(); v != nil {
				return v
			}
			return m.doFree(m.shifted - m.freed)
		case 2: // Free(len(tok))
			return m.doFree(n)
		case 3: // delayed by `delay` tokens
			pendingFree = append(pendingFree, n)
			if len(pendingFree) > delay {
				k := pendingFree[0]
				pendingFree = pendingFree[1:]
				return m.doFree(k)
			}
		}
		return nil
	}

	step := func() *core.Violation {
		op := t.Weighted(w[:]...)
		switch op {
		case opPeek:
			lo := -(m.pos - m.start)
			if lo < -3 {
				lo = -3
			}
			hi := maxLA
			i := 0
			switch t.Draw(4) {
			case 0:
				i = 0
			case 1:
				i = m.peeked - m.pos // the first unpeeked byte
				if i > hi || i < lo {
					i = 0
				}
			default:
				i = t.Range(lo, hi)
			}
			return m.doPeek(i)
		case opMoveF:
			avail := min(m.peeked, len(m.vis)) - m.pos
			if avail <= 0 {
				return m.doPeek(0)
			}
			return m.doMove(1 + t.Draw(avail))
		case opMoveB:
			if m.pos == m.start {
				return nil
			}
			return m.doMove(-(1 + t.Draw(m.pos-m.start)))
		case opShift:
			n := m.pos - m.start
			if v := m.doShift(false); v != nil {
				return v
			}
			return afterShift(n)
		case opLexeme:
			return m.doLexeme()
		case opSkip:
			n := m.pos - m.start
			m.z.Skip()
			m.shifted += n
			m.sinceSL += n
			m.start = m.pos
			ctx.L.Ev("Skip", int64(n))
			if v := m.afterOp(opSkip); v != nil {
				return v
			}
			return afterShift(n)
		case opRewind:
			p := t.Draw(m.pos - m.start + 1)
			m.z.Rewind(p)
			m.pos = m.start + p
			ctx.L.Ev("Rewind", int64(p))
			return m.afterOp(opRewind)
		case opPos:
			return m.doPos()
		case opErr:
			return m.doErr()
		case opShiftLen:
			if discipline == 1 {
				return nil
			}
			return m.doShiftLen()
		case opFree:
			if discipline != 4 {
				return nil
			}
			return m.doFree(t.Draw(m.shifted - m.freed + 1))
		case opPeekRune:
			i := t.Draw(maxLA + 1)
			if m.pos+i >= len(m.vis) {
				i = 0
			}
			if m.pos >= len(m.vis) {
				return nil
			}
			return m.doPeekRune(i)
		case opShiftExt:
			room := len(m.vis) - m.pos
			if room <= 0 {
				return nil
			}
			k := 1 + t.Draw(min(room, maxTok))
			if m.pos+k > m.peeked {
				ctx.Count("probe_shift_over_unpeeked")
			}
			before := m.reads()
			if v := m.doMove(k); v != nil {
				return v
			}
			n := m.pos - m.start
			if v := m.doShift(true); v != nil {
				return v
			}
			if m.reads() != before {
				ctx.Count("probe_shiftext_had_to_read")
			}
			return afterShift(n)
		case opScan:
			k := 1 + t.Draw(maxTok)
			moved := 0
			for j := 0; j < k; j++ {
				if v := m.doPeek(0); v != nil {
					return v
				}
				if m.pos >= len(m.vis) {
					break
				}
				if v := m.doMove(1); v != nil {
					return v
				}
				moved++
			}
			return nil
		}
		return nil
	}

	for ops := 0; ops < 400; ops++ {
		if t.Draw(stopN) == 0 {
			break
		}
		if v := step(); v != nil {
			return v
		}
	}
	if drain {
		// walk to the end like a lexer would: scan a token, shift, free
		sub := t.Sub()
		for tok := 0; tok < 6000; tok++ {
			if m.pos >= len(m.vis) {
				if v := m.doPeek(0); v != nil {
					return v
				}
				break
			}
			k := 1 + sub.Draw(maxTok)
			if giant {
				if sub.Draw(40) != 0 {
					k = 1 + sub.Draw(64)
				} else {
					k = maxTok/2 + sub.Draw(maxTok/2+1) // the blob
				}
			}
			if giant {
				// token-wise (a lexer that knows the token length): look at its last byte, move over it
				k = min(k, len(m.vis)-m.pos)
				if v := m.doPeek(k - 1); v != nil {
					return v
				}
				if v := m.doMove(k); v != nil {
					return v
				}
				k = 0
			}
			for j := 0; j < k && m.pos < len(m.vis); j++ {
				if v := m.doPeek(0); v != nil {
					return v
				}
				if v := m.doMove(1); v != nil {
					return v
				}
			}
			if sub.Draw(8) == 0 {
				if v := m.doLexeme(); v != nil {
					return v
				}
			}
			n := m.pos - m.start
			if v := m.doShift(false); v != nil {
				return v
			}
			if v := afterShift(n); v != nil {
				return v
			}
		}
		if v := m.doErr(); v != nil {
			return v
		}
		if discipline != 1 {
			if v := m.doShiftLen(); v != nil {
				return v
			}
		}
		ctx.Count("probe_drained_to_end")
	}
	if m.rd != nil {
		if m.rd.Reads > 1 {
			// chunked delivery happened
		}
		if plan.FailAt >= 0 && m.rd.ErrReturned != nil && m.rd.ErrReturned != io.EOF {
			ctx.NonT = true
		}
	}
	return nil
}

// runC13Memory is the long-stream family: every shifted token is freed at
// once; the memory held by the lexer must stay bounded by a constant that
// depends on buffer size, token length and lookahead, not on the stream.
func runC13Memory(ctx *core.Ctx) *core.Violation {
	t := ctx.T
	m := &c13{ctx: ctx}
	size := t.Pick(0, 4, 16, 64, 256, 4096)
	maxTok := t.Pick(1, 4, 16, 40)
	maxLA := t.Pick(0, 1, 4)
	useShiftLen := t.Chance(1, 2)
	skipTokens := t.Chance(1, 2)
	// Free discipline: every token is freed, either at once, with a constant lag of `lag`
	// tokens, or in batches of `lag`+1 tokens; at most lag+1 tokens are ever outstanding.
	lagKind := t.Weighted(2, 1, 1)
	lag := 0
	if lagKind != 0 {
		lag = t.Range(1, 3)
	}
	bound := 32*(size+(lag+1)*maxTok+maxLA) + 1024
	L := 64 * bound
	capL := 48 << 10
	if ctx.Env["tier"] == "thorough" {
		capL = 256 << 10
	}
	if L > capL {
		L = capL
	}
	if L < 16*bound {
		// stream too short to tell a leak from the constant: use a smaller buffer
		size = 16
		bound = 32*(size+(lag+1)*maxTok+maxLA) + 1024
		L = min(capL, 64*bound)
	}
	src := t.Sub()
	data := make([]byte, L)
	for i := range data {
		data[i] = byte('a' + src.Draw(26))
	}
	plan := faultio.Plan{FailAt: -1}
	plan.Chunk = t.Pick(faultio.ChunkFull, faultio.ChunkFixed)
	plan.Fixed = t.Pick(1, 3, 16, 61, 1024)
	plan.EOFStyle = t.Draw(3)
	m.rd = faultio.NewReader(ctx, data, plan)
	m.vis = data
	m.endErr = io.EOF
	m.facts = fmt.Sprintf("family=memory size=%d", size)
	m.z = buffer.NewStreamLexerSize(m.rd, size)
	m.initProbes()
	ctx.Describe("C13 memory family: size=%d maxTok=%d maxLA=%d stream=%d bytes bound=%d chunk=%d/%d freeViaShiftLen=%v freeDiscipline=%d lag=%d", size, maxTok, maxLA, L, bound, plan.Chunk, plan.Fixed, useShiftLen, lagKind, lag)
	ctx.SigAdd(uint64(lagKind*8 + lag))
	if lagKind != 0 {
		ctx.Count("probe_memory_family_lagged_free")
	}
	var owed []int // amounts not yet passed to Free, oldest first
	ctx.NonT = true
	ctx.Count("probe_memory_family_runs")
	ctx.L.MuteDevLines = true // tens of thousands of read events: kept in the digest, not as trace text (the heap cross-check must not measure the harness's own log)

	ops := t.Sub()
	nextSample := L / 8
	var atHalf, last int
	var samples []int
	var caps []int // capacity of the current buffer at each sample
	var heapHalf uint64
	for m.pos < L {
		k := 1 + ops.Draw(maxTok)
		for j := 0; j < k && m.pos < L; j++ {
			if m.z.Peek(0) != m.vis[m.pos] {
				return m.viol("peek-wrong", "memory family: Peek(0) at abs %d = %#x want %#x", m.pos, m.z.Peek(0), m.vis[m.pos])
			}
			m.z.Move(1)
			m.pos++
		}
		if maxLA > 0 {
			la := ops.Draw(maxLA + 1)
			if got := m.z.Peek(la); got != m.want(m.pos+la) {
				return m.viol("peek-wrong", "memory family: Peek(%d) at abs %d = %#x want %#x", la, m.pos, got, m.want(m.pos+la))
			}
		}
		if skipTokens && ops.Draw(4) == 0 {
			m.z.Skip() // a token the caller is not interested in (whitespace, a comment): counts for ShiftLen and Free like a shifted one
			ctx.Count("probe_memory_family_skips")
		} else {
			b := m.z.Shift()
			if !eq(b, m.vis[m.start:m.pos]) {
				return m.viol("shift-wrong", "memory family: Shift() = %q want %q at abs %d", clip(b), clip(m.vis[m.start:m.pos]), m.start)
			}
		}
		n := m.pos - m.start
		m.start = m.pos
		m.shifted += n
		if useShiftLen {
			sl := m.z.ShiftLen()
			if sl != n {
				return m.viol("shiftlen-wrong", "memory family: ShiftLen() = %d after a shift of %d bytes (abs %d)", sl, n, m.pos)
			}
		}
		owed = append(owed, n)
		switch lagKind {
		case 0:
			m.z.Free(n)
			m.freed += n
			owed = owed[:0]
		case 1: // constant lag: free the token shifted `lag` shifts ago
			if len(owed) > lag {
				m.z.Free(owed[0])
				m.freed += owed[0]
				owed = owed[1:]
			}
		case 2: // batches of lag+1 tokens
			if len(owed) > lag {
				sum := 0
				for _, x := range owed {
					sum += x
				}
				m.z.Free(sum)
				m.freed += sum
				owed = owed[:0]
			}
		}
		if m.pos >= nextSample {
			nextSample += L / 8
			h, ok := m.memHeld()
			if !ok {
				// reflection probe unavailable (fields renamed): only the heap cross-check remains
				ctx.Count("probe_memory_reflection_unavailable")
				if heapHalf == 0 && m.pos >= L/2 {
					heapHalf = liveHeap()
				}
				if os.Getenv("VERIF_DEBUG_HEAP") != "" {
					fmt.Fprintf(os.Stderr, "heap at %d: %d\n", m.pos, liveHeap())
				}
				continue
			}
			ctx.L.Ev("mem", int64(h))
			ctx.SigAdd(uint64(h))
			last = h
			if int64(h)*1000/int64(bound) > ctx.C["max_held_permille_of_bound"] {
				ctx.C["max_held_permille_of_bound"] = int64(h) * 1000 / int64(bound)
			}
			samples = append(samples, h)
			if os.Getenv("VERIF_DEBUG_HEAP") != "" {
				fmt.Fprintf(os.Stderr, "at %d: held(reflection)=%d liveHeap=%d\n", m.pos, h, liveHeap())
			}
			curCap := m.rv.FieldByName("buf").Cap()
			caps = append(caps, curCap)
			if capBound := 32*(size+(lag+1)*maxTok+maxLA) + 1024; curCap > capBound {
				return m.viol("memory-unbounded", "the current buffer alone has capacity %d after %d of %d stream bytes; bound 32*(size %d + %d tokens of %d + lookahead %d)+1024 = %d", curCap, m.pos, L, size, lag+1, maxTok, maxLA, capBound)
			}
			if lagKind == 0 && h > bound {
				return m.viol("memory-unbounded", "lexer holds %d bytes after %d of %d stream bytes with every token freed; bound 32*(size %d + token %d + lookahead %d)+1024 = %d", h, m.pos, L, size, maxTok, maxLA, bound)
			}
			if atHalf == 0 && m.pos >= L/2 {
				atHalf = h
				heapHalf = liveHeap()
			}
		}
	}
	ctx.Add("probe_memory_samples", int64(len(samples)))
	_ = last
	// hook-free cross-check (no reflection, so it also sees memory retained outside the
	// fields the probe knows): live heap after a forced GC at the half and at the end. The
	// threshold is deliberately coarse (half the stream + 64 KiB) because heap numbers are
	// not exactly reproducible; they never enter the digest.
	if heapHalf != 0 {
		heapEnd := liveHeap()
		ctx.Count("probe_memory_heap_measured")
		if heapEnd > heapHalf && heapEnd-heapHalf > uint64(L/2+64<<10) {
			return m.viol("memory-grows-with-stream", "live heap grew by %d bytes over the second half of a %d-byte stream although every token was freed (discipline %d, lag %d; measured with runtime.MemStats after GC)", heapEnd-heapHalf, L, lagKind, lag)
		}
	}
	// "instead of growing with the stream": whatever the constant is (with a lagged Free
	// discipline and tiny reader chunks the pool legitimately keeps dozens of small blocks),
	// the second half of the stream must not add to it. A leak grows linearly: end ~ 2 x half.
	if len(samples) >= 8 {
		half, end := samples[3], samples[len(samples)-1]
		// a leak accumulates blocks: the held bytes grow both absolutely and relative to the
		// size of the current buffer. A late, one-off enlargement of the buffer itself (a
		// legitimate growth step, of whatever factor) scales both and is not a leak.
		capHalf, capEnd := caps[3], caps[len(caps)-1]
		if capHalf < 1 {
			capHalf = 1
		}
		if capEnd < 1 {
			capEnd = 1
		}
		// ... and it accumulates steadily: both quarters of the second half add a comparable
		// amount. A single step (one enlargement, or a sizing policy that settles on another
		// buffer size halfway) is growth in one quarter only.
		mid := samples[5]
		d1, d2 := mid-half, end-mid
		steady := d1 > 0 && d2 > 0 && d1 >= d2/4 && d2 >= d1/4
		if steady && end > half+half/2+512 && end/capEnd > (half/capHalf)*3/2+4 {
			return m.viol("memory-grows-with-stream", "lexer holds %d bytes at the end of a %d-byte stream but held %d at the half (samples at each eighth: %v) although every token was freed (discipline %d, lag %d)", end, L, half, samples, lagKind, lag)
		}
	}
	if m.z.Peek(0) != 0 || m.z.Err() != io.EOF {
		return m.viol("err-wrong", "memory family: at the end Peek(0)=%#x Err()=%v", m.z.Peek(0), m.z.Err())
	}
	return nil
}
