package props

import (
	"bytes"
	"encoding/hex"
	"fmt"
	"os/exec"
	"sort"
	"strconv"
	"strings"
	"time"

	"github.com/tdewolff/parse/v2"
	"github.com/tdewolff/parse/v2/buffer"
	"github.com/tdewolff/parse/v2/html"
	"github.com/tdewolff/parse/v2/js"

	"verif/sim/core"
	"verif/sim/sched"
)

func init() { Registry["C20"] = RunC20 }

// pkgState renders the exported package-level state of the library.
func pkgState() string {
	var sb strings.Builder
	keys := make([]string, 0, len(js.Keywords))
	for k := range js.Keywords {
		keys = append(keys, k)
	}
	sort.Strings(keys)
	for _, k := range keys {
		fmt.Fprintf(&sb, "%s=%d;", k, js.Keywords[k])
	}
	fmt.Fprintf(&sb, "|%d|%d|%d|", js.NestedStmtLimit, js.NestedExprLimit, buffer.MinBuf)
	fmt.Fprintf(&sb, "%v%v%v%v%v%v|", html.GoTemplate, html.HandlebarsTemplate, html.MustacheTemplate, html.EJSTemplate, html.ASPTemplate, html.PHPTemplate)
	fmt.Fprintf(&sb, "%v|%v|", parse.URLEncodingTable, parse.DataURIEncodingTable)
	fmt.Fprintf(&sb, "%p %v|%p %v", parse.ErrBadDataURI, parse.ErrBadDataURI, js.ErrInvalidJSON, js.ErrInvalidJSON)
	return sb.String()
}

func drawWorkload(t *core.Tape, kind int) wlInput {
	in := wlInput{kind: t.Draw(nWorkloads), opt: t.Draw(64)}
	if kind >= 0 {
		in.kind = kind
	}
	c := corpus[wlLang[in.kind]]
	if extraCorpus != nil && len(extraCorpus[wlLang[in.kind]]) > 0 && t.Chance(1, 2) {
		c = extraCorpus[wlLang[in.kind]] // literals of the library's own unit tests
	}
	d := []byte(c[t.Draw(len(c))])
	switch t.Draw(4) {
	case 1: // splice with another entry
		o := c[t.Draw(len(c))]
		cut := t.Draw(len(d) + 1)
		d = append(append([]byte{}, d[:cut]...), o[t.Draw(len(o)+1):]...)
	case 2: // mutate a few bytes
		d = append([]byte{}, d...)
		for k := 1 + t.Draw(3); k > 0 && len(d) > 0; k-- {
			const mut = "<>{}[]()'\"/\\;:,.*&%$#@! \n\x00\xc3\xa9az09"
			d[t.Draw(len(d))] = mut[t.Draw(len(mut))]
		}
	case 3: // truncate
		d = d[:t.Draw(len(d)+1)]
	}
	if t.Chance(1, 25) {
		d = nil // the empty input: every constructor has a special case for it
	}
	if t.Chance(1, 5) {
		// insert runes of every UTF-8 width and several categories at tape-chosen positions
		d = append([]byte{}, d...)
		for k := 1 + t.Draw(3); k > 0; k-- {
			r := interestingRunes[t.Draw(len(interestingRunes))]
			at := t.Draw(len(d) + 1)
			d = append(d[:at:at], append([]byte(string(r)), d[at:]...)...)
		}
	}
	if t.Chance(1, 120) {
		// large input: several kilobytes (thresholds such as the 4 KiB default buffers)
		rep := t.Pick(4096, 5000, 9000, 20000)/(len(d)+1) + 1
		sep := []string{"", " ", "\n", ";\n"}[t.Draw(4)]
		big := make([]byte, 0, rep*(len(d)+2))
		for i := 0; i < rep; i++ {
			big = append(append(big, d...), sep...)
		}
		d = big
	}
	in.data = d
	return in
}

// deepInput builds a deeply nested input for the workload's language.
func deepInput(lang, depth int) []byte {
	var open, mid, cl string
	switch lang {
	case 0:
		open, mid, cl = "@media x{", "a{b:c}", "}"
	case 1:
		open, mid, cl = "<div a=b>", "text", "</div>"
	case 2:
		open, mid, cl = "<a b=\"c\">", "t", "</a>"
	case 3:
		open, mid, cl = "[", "1", "]"
	case 4:
		open, mid, cl = "[", "x", "]"
	default:
		open, mid, cl = "(", "1", ")"
	}
	b := make([]byte, 0, depth*(len(open)+len(cl))+len(mid))
	for i := 0; i < depth; i++ {
		b = append(b, open...)
	}
	b = append(b, mid...)
	for i := 0; i < depth; i++ {
		b = append(b, cl...)
	}
	return b
}

var interestingRunes = []rune{'a', 'Z', '_', '$', '0', ' ', '\n', '"', '\'', '\\', '/', '<', '&', 0xE9, 0xDF, 0x3A3, 0x1E9, 0x663, 0x200C, 0x2028, 0x20AC, 0x3042, 0x6F22, 0xFEFF, 0xFFFD, 0x10000, 0x1D400, 0x1D7D8, 0x1F600, 0x20000, 0x2FA1D, 0xE0100, 0x10FFFF}

func init() {
	// For every character in the list also its aliases modulo 2^16 (the character a table or cache
	// keyed by a truncated code point would confuse it with): the other planes for BMP characters,
	// the BMP character for supplementary ones.
	base := append([]rune{0xF92F, 0x1D7CE}, interestingRunes...)
	for _, r := range base {
		var al []rune
		if r >= 0x10000 {
			al = []rune{r & 0xFFFF}
		} else if r >= 0x80 {
			al = []rune{r + 0x10000}
		}
		for _, a := range al {
			if a >= 0x80 && (a < 0xD800 || a > 0xDFFF) {
				interestingRunes = append(interestingRunes, a)
			}
		}
	}
	interestingRunes = append(interestingRunes, 0xF92F, 0x1D7CE)
	// pairs of one identifier character and one that is none (space, separator) that agree modulo
	// 2^10 and 2^8: what a small direct-mapped table keyed by the low bits of the code point needs
	interestingRunes = append(interestingRunes, 0x3000, 0xAC00, 0x4E28, 0x00A0, 0x04A0, 0x06FF)
}

// sameLengthDecoy returns different content of exactly the same length and line structure shifted.
func sameLengthDecoy(d []byte) []byte {
	o := make([]byte, len(d))
	for i, c := range d {
		switch {
		case c == '\n':
			o[i] = ' '
		case c == ' ' && i%3 == 0:
			o[i] = '\n'
		case c >= 'a' && c <= 'z':
			o[i] = c - 32
		case c >= 'A' && c <= 'Z':
			o[i] = c + 32
		default:
			o[i] = c
		}
	}
	return o
}

func firstDiff(a, b []byte) string {
	la, lb := bytes.Split(a, []byte("\n")), bytes.Split(b, []byte("\n"))
	for i := 0; i < len(la) || i < len(lb); i++ {
		var x, y []byte
		if i < len(la) {
			x = la[i]
		}
		if i < len(lb) {
			y = lb[i]
		}
		if !bytes.Equal(x, y) {
			return fmt.Sprintf("line %d: %q vs %q", i+1, clipN(x, 120), clipN(y, 120))
		}
	}
	return "no difference"
}

func clipN(b []byte, n int) []byte {
	if len(b) > n {
		return b[:n]
	}
	return b
}

func hashBytes(b []byte) uint64 {
	h := uint64(0xcbf29ce484222325)
	for _, c := range b {
		h = (h ^ uint64(c)) * 0x100000001b3
	}
	return h
}

// SoloMain is the entry point of the fresh-process execution: vsim solo <kind> <opt> <hexdata>.
func SoloMain(args []string) ([]byte, error) {
	if len(args) != 3 {
		return nil, fmt.Errorf("usage: solo kind opt hexdata")
	}
	k, err1 := strconv.Atoi(args[0])
	o, err2 := strconv.Atoi(args[1])
	d, err3 := hex.DecodeString(args[2])
	if err1 != nil || err2 != nil || err3 != nil || k < 0 || k >= nWorkloads {
		return nil, fmt.Errorf("bad arguments")
	}
	in := wlInput{kind: k, opt: o, data: d}
	prepareFile(&in)
	defer Cleanup()
	return runWorkload(in), nil
}

// RunC20 is one simulated execution for property C20.
func RunC20(ctx *core.Ctx) *core.Violation {
	t := ctx.T
	n := 2 + t.Draw(5)
	ins := make([]wlInput, n)
	focus := t.Chance(1, 3) // all tasks on the same entry-point family: maximal contention on whatever it shares
	for i := range ins {
		ins[i] = drawWorkload(t, -1)
		if focus && i > 0 {
			ins[i] = drawWorkload(t, ins[0].kind)
		}
	}
	if focus {
		ctx.Count("probe_focused_runs")
		if t.Chance(1, 3) {
			// every task on the same input (own copies): with probability 1/4 a deeply nested one
			if t.Chance(1, 16) {
				// stress configuration: deepest legal nesting, no pruning in visitors, maximum number of tasks
				ins[0].data = deepInput(wlLang[ins[0].kind], t.Pick(40, 300, 900, 950, 999, 1000, 1001))
				ins[0].opt &^= 0x1c
				for len(ins) < 6 {
					ins = append(ins, wlInput{})
				}
				n = len(ins)
				ctx.Count("probe_deep_input_runs")
			}
			for i := 1; i < n; i++ {
				ins[i] = wlInput{kind: ins[0].kind, opt: ins[0].opt, data: append([]byte{}, ins[0].data...)}
			}
			ctx.Count("probe_all_identical_runs")
		}
	}
	if t.Chance(1, 2) {
		// two tasks on byte-identical input (own copies): what a content-keyed cache would need to go wrong
		a, b := t.Draw(n), t.Draw(n)
		if a != b {
			ins[b] = wlInput{kind: ins[a].kind, opt: ins[a].opt, data: append([]byte{}, ins[a].data...)}
			ctx.Count("probe_identical_inputs")
		}
	}
	freshDen := 200
	if ctx.Env["tier"] == "thorough" {
		freshDen = 20
	}
	fresh := ctx.Env["self"] != "" && t.Draw(freshDen) == freshDen-1
	kinds := make([]string, n)
	for i, in := range ins {
		kinds[i] = wlNames[in.kind]
		ctx.Count("wl_" + wlNames[in.kind])
		ctx.Describe("task %d: %s opt=%d input=%q", i, wlNames[in.kind], in.opt, in.data)
	}
	facts := "workloads=" + strings.Join(kinds, ",")
	// decoys: in the interleaved and in the second solo phase a task may first run the same
	// entry point on another input in the same (reused) backing array
	decoy1 := make([]*wlInput, n)
	decoy2 := make([]*wlInput, n)
	for i := range ins {
		if t.Chance(1, 3) {
			d := drawWorkload(t, ins[i].kind)
			d.opt = ins[i].opt
			if t.Chance(1, 2) {
				// same address AND same length as the real input; sometimes also the same beginning
				// or the same end (what a memo keyed by a cheap fingerprint would take for the key)
				d.data = sameLengthDecoy(ins[i].data)
				n3 := len(d.data) / 3
				switch t.Draw(4) {
				case 1:
					copy(d.data[:len(d.data)-n3], ins[i].data)
				case 2:
					copy(d.data[n3:], ins[i].data[n3:])
				}
			}
			decoy1[i] = &d
			ctx.Count("probe_decoy_before_real")
		}
		if t.Chance(1, 3) {
			d := drawWorkload(t, ins[i].kind)
			d.opt = ins[i].opt
			decoy2[i] = &d
		}
	}
	for i := range ins {
		prepareFile(&ins[i])
		if decoy1[i] != nil {
			prepareFile(decoy1[i])
		}
		if decoy2[i] != nil {
			prepareFile(decoy2[i])
		}
	}
	before := pkgState()

	// Phase order. Normally: solo, interleaved, solo in reverse. In a young process (the
	// fresh-process re-executions) the interleaved phase comes FIRST, so that whatever the
	// library does only once per process (fill a table, adjust a default) happens while
	// the tasks are concurrent instead of in the solo phase before them. The order is not
	// part of the event log: events are emitted in a fixed order after the phases.
	interFirst := ctx.Env["fresh"] == "1"
	solo1 := make([][]byte, n)
	// caller-owned memory of every workload of every phase, checked when the phase is over and
	// again at the end of the run: it must still be as its owner left it
	mem := make([]memRec, 3*n)
	memViol := ""
	checkMem := func(when string, upto int) {
		for k := 0; k < upto && memViol == ""; k++ {
			if a, sz := mem[k].changed(); a >= 0 {
				i := k % n
				memViol = fmt.Sprintf("task %d (%s on %q, %s phase): an array of %d bytes that this caller had handed to the library was written to after the caller was done with it (noticed %s)", i, wlNames[ins[i].kind], clipN(ins[i].data, 60), [...]string{"first solo", "interleaved", "second solo"}[k/n], sz, when)
			}
		}
	}
	runSolo1 := func() {
		for i := range ins {
			solo1[i] = runWorkloadRec(ins[i], nil, &mem[i])
			if bytes.HasPrefix(lastLine(solo1[i]), []byte("PANIC")) {
				ctx.Count("probe_workload_panics")
			}
		}
		checkMem("after the first solo phase", n)
	}
	inter := make([][]byte, n)
	bodies := make([]func(), n)
	for i := range ins {
		i := i
		bodies[i] = func() { inter[i] = runWorkloadRec(ins[i], decoy1[i], &mem[n+i]) }
	}
	if !interFirst {
		runSolo1()
	}
	if InnerYields {
		// instrumented build: each task is also preempted inside library calls, at every
		// period-th function entry / loop iteration (period drawn per task)
		periods := make([]int, n)
		for i := range periods {
			periods[i] = t.Pick(1, 3, 17, 64, 250, 1000, 4000)
		}
		sched.SetInnerPeriods(periods)
		ctx.Count("probe_inner_yield_runs")
		// and, for two tasks in three, right after every release of a lock, pool or atomic
		rel := make([]bool, n)
		for i := range rel {
			rel[i] = t.Chance(2, 3)
		}
		sched.SetReleaseParking(rel)
	}
	sr := sched.Run(t, bodies)
	sched.SetInnerPeriods(nil)
	sched.SetReleaseParking(nil)
	if sr.Hang != "" {
		// (the task is still spinning: this process is spoilt, the driver leaves it at once)
		return &core.Violation{Class: "C20/hang", Facts: "in=" + shortFnName(sr.HangIn), Msg: "the call never returns: " + sr.Hang}
	}
	if sr.Stuck != "" {
		panic("harness: scheduler watchdog: " + sr.Stuck)
	}
	if sr.Stuck == "" && !sr.Deadlock {
		for k := n; k < 2*n && memViol == ""; k++ { // (the first solo phase may not have run yet)
			if a, sz := mem[k].changed(); a >= 0 {
				i := k - n
				memViol = fmt.Sprintf("task %d (%s on %q, interleaved phase): an array of %d bytes that this caller had handed to the library was written to after the caller was done with it (noticed after the interleaved phase)", i, wlNames[ins[i].kind], clipN(ins[i].data, 60), sz)
			}
		}
	}
	if interFirst {
		runSolo1()
		ctx.Count("probe_interleaved_phase_first")
	}
	for i := range ins {
		ctx.L.Ev("solo", int64(i), int64(hashBytes(solo1[i])>>1))
	}
	for _, ev := range sr.Schedule {
		// the schedule is part of the full digest (exact replay), not of the operation digest:
		// with yields inside library calls it depends on how many calls the library makes,
		// which legitimately varies with internal state (a warm pool, a filled cache)
		ctx.L.EvDev("sched", int64(ev>>8), int64(ev&0xff))
	}
	solo2 := make([][]byte, n)
	for i := n - 1; i >= 0; i-- {
		solo2[i] = runWorkloadRec(ins[i], decoy2[i], &mem[2*n+i])
	}
	if !sr.Deadlock {
		checkMem("at the end of the run", 3*n)
	}
	after := pkgState()

	// signature: multiset of workload kinds + schedule projected on (task, site)
	ks := make([]int, n)
	for i := range ins {
		ks[i] = ins[i].kind
	}
	sort.Ints(ks)
	for _, k := range ks {
		ctx.SigAdd(uint64(k))
	}
	ctx.SigAdd(sr.Sig)
	multi := 0
	for _, c := range sr.TurnsPer {
		if c >= 2 {
			multi++
		}
	}
	if multi >= 2 {
		ctx.NonT = true
	}
	ctx.Add("probe_sched_steps", int64(sr.Steps))
	ctx.Add("probe_sched_task_switches", int64(sr.Switches))
	ctx.Add("probe_sched_holds_after_release", int64(sr.Holds))
	ctx.Count("probe_scheduled_runs")

	if sr.Deadlock {
		return ctx.Viol("C20/deadlock", facts, "tasks on private instances block each other")
	}
	for i := range ins {
		if !bytes.Equal(solo1[i], inter[i]) {
			return ctx.Viol("C20/transcript-differs-interleaved", "workload="+wlNames[ins[i].kind], "task %d (%s on %q): result under interleaving differs from the result when running alone: %s", i, wlNames[ins[i].kind], clipN(ins[i].data, 60), firstDiff(solo1[i], inter[i]))
		}
		if !bytes.Equal(solo1[i], solo2[i]) {
			return ctx.Viol("C20/transcript-depends-on-history", "workload="+wlNames[ins[i].kind], "task %d (%s on %q): result depends on what ran before in the process: %s", i, wlNames[ins[i].kind], clipN(ins[i].data, 60), firstDiff(solo1[i], solo2[i]))
		}
	}
	if memViol != "" {
		return ctx.Viol("C20/caller-memory-written-after-return", facts, "%s", memViol)
	}
	if before != after {
		return ctx.Viol("C20/package-state-changed", facts, "exported package-level state of the library changed during the run")
	}
	if fresh {
		i := t.Draw(n)
		var out []byte
		var err error
		for attempt := 0; attempt < 4; attempt++ {
			cmd := exec.Command(ctx.Env["self"], "solo", strconv.Itoa(ins[i].kind), strconv.Itoa(ins[i].opt), hex.EncodeToString(ins[i].data))
			cmd.Env = append(cmd.Environ(), "GORACE=halt_on_error=1 exitcode=66 atexit_sleep_ms=0")
			if out, err = cmd.Output(); err == nil {
				break
			}
			if _, isExit := err.(*exec.ExitError); isExit {
				break // the child ran and failed: not a transient spawn problem
			}
			time.Sleep(time.Duration(200*(attempt+1)) * time.Millisecond)
		}
		if err != nil {
			panic(fmt.Sprintf("harness: fresh-process execution failed: %v", err))
		}
		ctx.Count("probe_fresh_process_compared")
		if !bytes.Equal(out, solo1[i]) {
			return ctx.Viol("C20/transcript-depends-on-history", "workload="+wlNames[ins[i].kind], "task %d (%s on %q): result in a fresh process differs from the result in this process: %s", i, wlNames[ins[i].kind], clipN(ins[i].data, 60), firstDiff(out, solo1[i]))
		}
	}
	return nil
}

func shortFnName(fn string) string {
	if i := strings.LastIndex(fn, "/"); i >= 0 {
		return fn[i+1:]
	}
	return fn
}

func lastLine(b []byte) []byte {
	b = bytes.TrimRight(b, "\n")
	if i := bytes.LastIndexByte(b, '\n'); i >= 0 {
		return b[i+1:]
	}
	return b
}
