//go:build vyield

package props

import (
	"github.com/tdewolff/parse/v2/vyield"

	"verif/sim/sched"
)

// InnerYields reports whether this binary was built against the instrumented copy of the
// library (yield hook at every function entry and loop iteration).
const InnerYields = true

func init() { vyield.Hook, vyield.HookU = sched.YieldInner, sched.YieldAfterRelease }
