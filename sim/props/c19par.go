package props

import (
	"encoding/binary"
	"fmt"
	"io"
	"os"

	"github.com/tdewolff/parse/v2"

	"verif/sim/core"
	"verif/sim/faultio"
	"verif/sim/sched"
)

// yieldingFile wraps a real *os.File as a bare io.ReadSeeker with yield points.
type yieldingFile struct{ f *os.File }

func (y *yieldingFile) Read(p []byte) (int, error) {
	sched.Yield(sched.SiteRead)
	n, err := y.f.Read(p)
	sched.Yield(sched.SiteReadRet)
	return n, err
}
func (y *yieldingFile) Seek(off int64, whence int) (int64, error) {
	sched.Yield(sched.SiteSeek)
	n, err := y.f.Seek(off, whence)
	sched.Yield(sched.SiteSeekRet)
	return n, err
}

type parOp struct {
	kind int // 0 ReadAt, 1 typed read (clone only), 2 Seek+typed (clone only)
	off  int64
	n    int
	tk   int
}

type parRes struct {
	b   []byte
	n   int
	err error
	val uint64
	pos int64
}

// runC19Parallel: io.ReaderAt says "clients of ReadAt can execute parallel
// ReadAt calls on the same input source"; Clone() exists so that several
// cursors can share one backend. 2-4 tasks, interleaved at every seam of the
// simulated source by the seeded scheduler, must each get exactly the bytes at
// their own offsets.
func runC19Parallel(ctx *core.Ctx) *core.Violation {
	t := ctx.T
	m := &c19{ctx: ctx}
	defer m.closeAll()
	m.le = t.Chance(1, 2)
	be := t.Pick(beMem, beSeeker, beSeeker, beSeekerAuto, beReaderAt, beFile, beMmapPath)
	n := 1 + t.Draw(40)
	if t.Chance(1, 8) {
		n = 4000 + t.Draw(5000) // beyond one page: what a read-ahead window or a page-wise cache needs
	}
	data := genData(t, n, 2)
	m.data, m.size = data, int64(n)
	plan := faultio.Plan{FailAt: -1, Chunk: t.Pick(faultio.ChunkFull, faultio.ChunkFixed), Fixed: t.Pick(1, 2, 3), EOFStyle: t.Draw(2)}
	m.facts = fmt.Sprintf("backend=%s mode=parallel", beNames[be])
	yield := func(site string) { sched.Yield(sched.SiteOf(site)) }
	var r *parse.BinaryReader
	var err error
	var seeker *faultio.ReadSeeker
	switch be {
	case beMem:
		r = parse.NewBinaryReaderBytes(data)
	case beSeeker, beSeekerAuto:
		seeker = &faultio.ReadSeeker{Ctx: ctx, Data: data, P: plan, Yield: yield, Quiet: true}
		sz := int64(n)
		if be == beSeekerAuto {
			sz = -1
		}
		r, err = parse.NewBinaryReaderReader(seeker, sz)
	case beReaderAt:
		r, err = parse.NewBinaryReaderReader(&faultio.ReaderAt{Ctx: ctx, Data: data, P: plan, Yield: yield, Quiet: true}, int64(n))
	case beMmapPath:
		path, e := c19TempFile(data)
		if e != nil {
			panic("harness: temp file: " + e.Error())
		}
		r, err = parse.NewBinaryReaderMmapPath(path)
		if r != nil {
			m.closers = append(m.closers, r)
		}
	case beFile:
		path, e := c19TempFile(data)
		if e != nil {
			panic("harness: temp file: " + e.Error())
		}
		f, e := os.Open(path)
		if e != nil {
			panic("harness: temp file: " + e.Error())
		}
		m.closers = append(m.closers, f)
		r, err = parse.NewBinaryReaderReader(&yieldingFile{f}, int64(n))
	}
	if err != nil || r == nil {
		return m.viol("open-failed", "constructor failed on intact data: %v", err)
	}
	if m.le {
		r.ByteOrder = binary.LittleEndian
	}
	nt := 2 + t.Draw(3)
	readers := make([]*parse.BinaryReader, nt)
	plans := make([][]parOp, nt)
	results := make([][]parRes, nt)
	own := make([]bool, nt)
	for i := 0; i < nt; i++ {
		own[i] = t.Chance(1, 2)
		if own[i] {
			readers[i] = r.Clone()
		} else {
			readers[i] = r
		}
		k := 1 + t.Draw(5)
		for j := 0; j < k; j++ {
			op := parOp{off: int64(t.Draw(n + 2)), n: t.Draw(7)}
			if n > 4096 && t.Chance(2, 3) {
				op.off = int64(4096 - 8 + t.Draw(17)) // around the page boundary
			}
			if own[i] && be != beMem {
				op.kind = t.Weighted(3, 2, 2, 2)
				op.tk = t.Draw(kI64 + 1)
			}
			plans[i] = append(plans[i], op)
		}
		results[i] = make([]parRes, len(plans[i]))
	}
	ctx.Describe("C19 parallel: backend=%s data=% x tasks=%d ownClone=%v plans=%v chunk=%d/%d eofStyle=%d", beNames[be], data, nt, own, plans, plan.Chunk, plan.Fixed, plan.EOFStyle)
	bodies := make([]func(), nt)
	for i := 0; i < nt; i++ {
		i := i
		bodies[i] = func() {
			br := readers[i]
			for j, op := range plans[i] {
				sched.Yield(sched.SiteCall)
				res := &results[i][j]
				switch op.kind {
				case 0:
					p := make([]byte, op.n)
					res.n, res.err = br.ReadAt(p, op.off)
					res.b = p
				case 1:
					res.pos = br.Pos()
					res.val = typedRead(br, op.tk)
				case 2:
					tgt := op.off
					if tgt > int64(n) {
						tgt = int64(n)
					}
					br.Seek(tgt, io.SeekStart)
					res.pos = br.Pos()
					res.val = typedRead(br, op.tk)
				case 3:
					// a byte string read through the own clone and KEPT: judged when everybody is done
					res.pos = br.Pos()
					res.b = br.ReadBytes(int64(1 + op.n))
				}
			}
		}
	}
	sr := sched.Run(t, bodies)
	if sr.Hang != "" {
		return &core.Violation{Class: "C19/hang", Facts: "in=" + shortFnName(sr.HangIn), Msg: "the call never returns: " + sr.Hang}
	}
	if sr.Stuck != "" {
		panic("harness: scheduler watchdog: " + sr.Stuck)
	}
	for _, ev := range sr.Schedule {
		ctx.L.Ev("sched", int64(ev>>8), int64(ev&0xff))
	}
	ctx.SigAdd(sr.Sig)
	ctx.Add("probe_parallel_runs", 1)
	ctx.Add("probe_parallel_steps", int64(sr.Steps))
	ctx.Add("probe_parallel_task_switches", int64(sr.Switches))
	if sr.Blocked > 0 {
		ctx.Add("probe_parallel_lock_contended", int64(sr.Blocked))
		ctx.NonT = true
	}
	if sr.Switches >= 3 {
		ctx.NonT = true
	}
	if sr.Deadlock {
		return m.viol("deadlock", "all unfinished tasks wait for a lock of the library that nobody can release")
	}
	if seeker != nil && seeker.Overlaps > 0 {
		return m.viol("seeker-critical-section-overlap", "two callers were inside Seek/Read of the shared io.ReadSeeker at the same time (%d overlaps): the Seek+Read pair is not atomic", seeker.Overlaps)
	}
	// per-call oracle
	for i := 0; i < nt; i++ {
		pos := int64(0) // clone position model
		eof := false
		for j, op := range plans[i] {
			res := results[i][j]
			switch op.kind {
			case 0:
				avail := m.size - op.off
				if avail < 0 {
					avail = 0
				}
				want := int64(op.n)
				if want > avail {
					want = avail
				}
				if int64(res.n) != want || (res.n > 0 && !eq(res.b[:res.n], data[op.off:op.off+int64(res.n)])) {
					return m.viol("parallel-readat-wrong", "task %d call %d: ReadAt(len %d, off %d) = n=%d %q err=%v; the bytes at that offset are %q", i, j, op.n, op.off, res.n, clip(res.b[:max(res.n, 0)]), res.err, clip(data[min(int(op.off), n):min(int(op.off)+op.n, n)]))
				}
				if res.n < op.n && res.err != io.EOF {
					return m.viol("parallel-readat-wrong", "task %d call %d: short ReadAt with err=%v", i, j, res.err)
				}
			case 3:
				if eof {
					if len(res.b) != 0 {
						return m.viol("parallel-readbytes-wrong", "task %d call %d: ReadBytes after an overrun returned %d bytes", i, j, len(res.b))
					}
					continue
				}
				if res.pos != pos {
					return m.viol("parallel-pos-wrong", "task %d call %d: clone Pos() = %d, want %d", i, j, res.pos, pos)
				}
				want := int64(1 + op.n)
				if pos+want > m.size {
					want = m.size - pos
					eof = true
				}
				if int64(len(res.b)) != want || !eq(res.b, data[pos:pos+want]) {
					return m.viol("parallel-readbytes-wrong", "task %d call %d: ReadBytes(%d) at %d on its own clone, looked at after all callers were done = %q; the bytes there are %q", i, j, 1+op.n, pos, clip(res.b), clip(data[pos:pos+want]))
				}
				pos += want
			case 1, 2:
				if op.kind == 2 {
					pos = op.off
					if pos > m.size {
						pos = m.size
					}
					eof = false // Seek is only judged before an overrun
				}
				w := int64(kindWidth[op.tk])
				if eof {
					if res.val != 0 {
						return m.viol("parallel-typed-wrong", "task %d call %d: Read%s after an overrun returned %#x", i, j, kindNames[op.tk], res.val)
					}
					continue
				}
				if res.pos != pos {
					return m.viol("parallel-pos-wrong", "task %d call %d: clone Pos() = %d, want %d", i, j, res.pos, pos)
				}
				if pos+w <= m.size {
					want := refDecode(data[pos:], m.le, int(w), isSigned(op.tk))
					if res.val != want {
						return m.viol("parallel-typed-wrong", "task %d call %d: Read%s at %d on its own clone = %#x, want %#x (bytes % x)", i, j, kindNames[op.tk], pos, res.val, want, data[pos:pos+w])
					}
					pos += w
				} else {
					if res.val != 0 {
						return m.viol("parallel-typed-wrong", "task %d call %d: Read%s at %d past the end returned %#x", i, j, kindNames[op.tk], pos, res.val)
					}
					eof = true
					pos = m.size
				}
			}
		}
	}
	return nil
}
