package props

import (
	"bytes"
	"encoding/binary"
	"fmt"
	"io"
	"math"
	"os"
	"path/filepath"
	"strings"
	"testing/iotest"

	"github.com/tdewolff/parse/v2"

	"verif/sim/core"
	"verif/sim/faultio"
)

func init() { Registry["C19"] = RunC19 }

// ---------------------------------------------------------------- temp files

var c19Dir string
var c19FileSeq int

// Cleanup removes the worker's scratch directory.
func Cleanup() {
	if c19Dir != "" {
		os.RemoveAll(c19Dir)
		c19Dir = ""
	}
}

func c19TempFile(data []byte) (string, error) {
	if c19Dir == "" {
		d, err := os.MkdirTemp("", "vsim-c19-")
		if err != nil {
			return "", err
		}
		c19Dir = d
	}
	c19FileSeq++
	p := filepath.Join(c19Dir, fmt.Sprintf("f%d.bin", c19FileSeq&7))
	return p, os.WriteFile(p, data, 0o600)
}

// ---------------------------------------------------------------- value kinds

const (
	kU8 = iota
	kU16
	kU24
	kU32
	kU64
	kI8
	kI16
	kI24
	kI32
	kI64
	kBytes
	kString
	kByte
	kRaw
	nKinds
)

var kindNames = [...]string{"Uint8", "Uint16", "Uint24", "Uint32", "Uint64", "Int8", "Int16", "Int24", "Int32", "Int64", "Bytes", "String", "Byte", "Write"}
var kindWidth = [...]int{1, 2, 3, 4, 8, 1, 2, 3, 4, 8, -1, -1, 1, -1}

// sniff models a caller that has looked at the beginning of the file (a magic number, a header)
// before handing the handle over: the handle's own read offset is then not zero. A reader over "the
// file" ranges over the whole file all the same (its size is the file's, its offsets are absolute).
func sniff(ctx *core.Ctx, f *os.File, n int) {
	if n == 0 || !ctx.T.Chance(1, 3) {
		return
	}
	k := 1 + ctx.T.Draw(min(n, 16))
	if ctx.T.Chance(1, 4) {
		k = n
	}
	io.ReadFull(f, make([]byte, k))
	ctx.Count("probe_file_handle_offset_not_zero")
}

func isSigned(k int) bool { return k >= kI8 && k <= kI64 }

type wrOp struct {
	le   bool // byte order in force for this write (the exported ByteOrder field may be switched between calls)
	kind int
	val  uint64 // integer kinds: the value's low `width` bytes, sign-extended for signed kinds
	b    []byte
}

func drawInt(t *core.Tape, width int, signed bool) uint64 {
	bits := uint(8 * width)
	var v uint64
	switch t.Draw(6) {
	case 0:
		v = 0
	case 1:
		v = 1
	case 2:
		v = ^uint64(0) // all ones: max unsigned / -1
	case 3:
		v = 1 << (bits - 1) // min signed / high bit
	case 4:
		v = 1<<(bits-1) - 1
	default:
		for i := 0; i < width; i++ {
			v = v<<8 | uint64(t.Draw(256))
		}
	}
	if bits < 64 {
		v &= 1<<bits - 1
		if signed && v&(1<<(bits-1)) != 0 {
			v |= ^uint64(0) << bits // sign-extend
		}
	}
	return v
}

// refEncode is the reference encoding (encoding/binary; 24-bit by hand).
func refEncode(dst []byte, le bool, width int, v uint64) []byte {
	var tmp [8]byte
	if le {
		binary.LittleEndian.PutUint64(tmp[:], v)
		return append(dst, tmp[:width]...)
	}
	binary.BigEndian.PutUint64(tmp[:], v)
	return append(dst, tmp[8-width:]...)
}

func refDecode(b []byte, le bool, width int, signed bool) uint64 {
	var tmp [8]byte
	var v uint64
	if le {
		copy(tmp[:], b[:width])
		v = binary.LittleEndian.Uint64(tmp[:])
	} else {
		copy(tmp[8-width:], b[:width])
		v = binary.BigEndian.Uint64(tmp[:])
	}
	bits := uint(8 * width)
	if signed && bits < 64 && v&(1<<(bits-1)) != 0 {
		v |= ^uint64(0) << bits
	}
	return v
}

// doWrite performs one typed write. Byte-string arguments are handed over in a scratch
// slice that the caller overwrites right after the call, as a caller reusing its buffer
// (or io.Copy) would: the writer must have copied them.
func doWrite(w *parse.BinaryWriter, op wrOp) {
	var scratch []byte
	if op.b != nil {
		scratch = append(make([]byte, 0, len(op.b)+2), op.b...)
		defer func() {
			for i := range scratch {
				scratch[i] ^= 0xFF
			}
			_ = append(scratch, 0xEE, 0xEE)
		}()
	}
	op.b = scratch
	switch op.kind {
	case kU8:
		w.WriteUint8(uint8(op.val))
	case kU16:
		w.WriteUint16(uint16(op.val))
	case kU24:
		w.WriteUint24(uint32(op.val))
	case kU32:
		w.WriteUint32(uint32(op.val))
	case kU64:
		w.WriteUint64(op.val)
	case kI8:
		w.WriteInt8(int8(op.val))
	case kI16:
		w.WriteInt16(int16(op.val))
	case kI24:
		w.WriteInt24(int32(op.val))
	case kI32:
		w.WriteInt32(int32(op.val))
	case kI64:
		w.WriteInt64(int64(op.val))
	case kBytes:
		w.WriteBytes(op.b)
	case kString:
		w.WriteString(string(op.b))
	case kByte:
		w.WriteByte(byte(op.val))
	case kRaw:
		w.Write(op.b)
	}
}

// typedRead performs the read of an integer kind and returns the value
// widened to 64 bits (sign-extended for signed kinds).
func typedRead(r *parse.BinaryReader, kind int) uint64 {
	switch kind {
	case kU8:
		return uint64(r.ReadUint8())
	case kU16:
		return uint64(r.ReadUint16())
	case kU24:
		return uint64(r.ReadUint24())
	case kU32:
		return uint64(r.ReadUint32())
	case kU64:
		return r.ReadUint64()
	case kI8:
		return uint64(int64(r.ReadInt8()))
	case kI16:
		return uint64(int64(r.ReadInt16()))
	case kI24:
		return uint64(int64(r.ReadInt24()))
	case kI32:
		return uint64(int64(r.ReadInt32()))
	case kI64:
		return uint64(r.ReadInt64())
	}
	return 0
}

// ---------------------------------------------------------------- backends

const (
	beMem = iota
	beBytesReader
	beSeeker
	beSeekerAuto
	beReaderAt
	beReadAll
	beStream
	beFile
	beFilePath
	beMmapPath
	beMmapFile
	beStdBytesReader   // *bytes.Reader: a real io.ReadSeeker (+ReaderAt) from the standard library
	beStdStringsReader // *strings.Reader
	beStdSection       // *io.SectionReader over a larger source
	beOSFileAsReader   // *os.File through NewBinaryReaderReader(f, -1 or size)
	nBackends
)

var beNames = [...]string{"memory", "reader-with-Bytes", "ReadSeeker(size)", "ReadSeeker(size<0)", "ReaderAt", "Reader(ReadAll)", "Reader(stream)", "File", "FilePath", "MmapPath", "MmapFile", "bytes.Reader", "strings.Reader", "io.SectionReader", "os.File(as io.Reader)"}

func beSimulated(b int) bool { return b >= beSeeker && b <= beStream }
func beMemoryLike(b int) bool {
	return b == beMem || b == beBytesReader || b == beReadAll || b == beMmapPath || b == beMmapFile
}
func beSeekable(b int) bool { return b != beStream }

type heldBytes struct {
	s, copy []byte
	at      int64
}

type c19 struct {
	declared int64 // >0: size announced to the constructor although the source is shorter (torn file)
	held     []heldBytes
	ctx      *core.Ctx
	le       bool
	be       int
	data     []byte
	size     int64
	facts    string
	closers  []io.Closer
	yield    func(string)
}

func (m *c19) viol(class, f string, a ...interface{}) *core.Violation {
	return m.ctx.Viol("C19/"+class, m.facts, f, a...)
}

// open builds a BinaryReader over data on the given backend.
func (m *c19) open(be int, data []byte, plan faultio.Plan) (*parse.BinaryReader, error) {
	ctx := m.ctx
	var r *parse.BinaryReader
	var err error
	switch be {
	case beMem:
		r = parse.NewBinaryReaderBytes(data)
	case beBytesReader:
		r, err = parse.NewBinaryReaderReader(faultio.BytesReader{Reader: faultio.NewReader(ctx, data, faultio.Plan{FailAt: -1})}, int64(ctx.T.Pick(-1, len(data), 0)))
	case beSeeker:
		r, err = parse.NewBinaryReaderReader(&faultio.ReadSeeker{Ctx: ctx, Data: data, P: plan, Yield: m.yield, Dev: ctx.T.Sub()}, m.sizeArg(data))
	case beSeekerAuto:
		s := &faultio.ReadSeeker{Ctx: ctx, Data: data, P: plan, Yield: m.yield, Dev: ctx.T.Sub()}
		if len(data) > 0 && ctx.T.Chance(1, 4) {
			s.Pos = int64(ctx.T.Draw(len(data))) // constructor must put the cursor back
		}
		r, err = parse.NewBinaryReaderReader(s, -1)
	case beReaderAt:
		r, err = parse.NewBinaryReaderReader(&faultio.ReaderAt{Ctx: ctx, Data: data, P: plan, Yield: m.yield, Dev: ctx.T.Sub()}, m.sizeArg(data))
	case beReadAll:
		rd := faultio.NewReader(ctx, data, plan)
		r, err = parse.NewBinaryReaderReader(rd, -1)
	case beStream:
		rd := faultio.NewReader(ctx, data, plan)
		r, err = parse.NewBinaryReaderReader(rd, m.sizeArg(data))
	case beStdBytesReader:
		r, err = parse.NewBinaryReaderReader(bytes.NewReader(data), int64(ctx.T.Pick(-1, len(data))))
	case beStdStringsReader:
		r, err = parse.NewBinaryReaderReader(strings.NewReader(string(data)), int64(ctx.T.Pick(-1, len(data))))
	case beStdSection:
		big := append(append([]byte("HEAD"), data...), "TAIL"...)
		var under io.ReaderAt = bytes.NewReader(big)
		if k := ctx.T.Draw(3); k > 0 {
			// a reader stacked on a section of another BinaryReader (which is an io.ReaderAt): an
			// embedded table parsed through a reader of its own
			var parent *parse.BinaryReader
			if k == 1 {
				parent, _ = parse.NewBinaryReaderReader(bytes.NewReader(big), -1) // seeker-backed parent
			} else {
				parent = parse.NewBinaryReaderBytes(big)
			}
			if parent != nil {
				under = parent
				ctx.Count("probe_stacked_reader")
			}
		}
		r, err = parse.NewBinaryReaderReader(io.NewSectionReader(under, 4, int64(len(data))), int64(ctx.T.Pick(-1, len(data))))
	case beOSFileAsReader:
		var path string
		path, err = c19TempFile(data)
		if err != nil {
			panic("harness: cannot write temp file: " + err.Error())
		}
		var f *os.File
		if f, err = os.Open(path); err == nil {
			m.closers = append(m.closers, f)
			r, err = parse.NewBinaryReaderReader(f, int64(ctx.T.Pick(-1, len(data))))
		}
	case beFile, beFilePath, beMmapPath, beMmapFile:
		var path string
		path, err = c19TempFile(data)
		if err != nil {
			panic("harness: cannot write temp file: " + err.Error())
		}
		switch be {
		case beFile:
			var f *os.File
			if f, err = os.Open(path); err == nil {
				sniff(ctx, f, len(data))
				r, err = parse.NewBinaryReaderFile(f)
				m.closers = append(m.closers, f)
			}
		case beFilePath:
			r, err = parse.NewBinaryReaderPath(path)
		case beMmapPath:
			r, err = parse.NewBinaryReaderMmapPath(path)
		case beMmapFile:
			var f *os.File
			if f, err = os.Open(path); err == nil {
				sniff(ctx, f, len(data))
				r, err = parse.NewBinaryReaderMmapFile(f)
				m.closers = append(m.closers, f)
			}
		}
		if r != nil {
			m.closers = append(m.closers, r)
		}
	}
	if r != nil && err == nil && ctx.T.Chance(1, 8) {
		// handing an existing *BinaryReader to the constructor must keep working on the same data
		if r2, e2 := parse.NewBinaryReaderReader(r, int64(ctx.T.Pick(-1, 0, len(data)))); e2 == nil && r2 != nil {
			r = r2
			ctx.Count("probe_binaryreader_passthrough")
		}
	}
	if r != nil && m.le {
		r.ByteOrder = binary.LittleEndian
	}
	return r, err
}

func (m *c19) sizeArg(data []byte) int64 {
	if m.declared > 0 {
		return m.declared
	}
	return int64(len(data))
}

// setOrder switches the byte order of every live reader (each BinaryReader has its own field).
func (m *c19) setOrder(all []*brModel, le bool) {
	m.le = le
	for _, b := range all {
		if le {
			b.r.ByteOrder = binary.LittleEndian
		} else {
			b.r.ByteOrder = binary.BigEndian
		}
	}
}

func (m *c19) closeAll() {
	for i := len(m.closers) - 1; i >= 0; i-- {
		m.closers[i].Close()
	}
	m.closers = nil
}

// brModel is the reference state of one BinaryReader (or clone).
type brModel struct {
	r       *parse.BinaryReader
	pos     int64
	eof     bool // a typed read has run past the end
	lenient bool // an io.Reader/ReaderAt style call has reported EOF: Err() may be nil or EOF
	id      int
}

// checkState verifies Pos, Len and Err after an operation.
func (m *c19) checkState(b *brModel, op string) *core.Violation {
	for i := range m.held {
		if h := &m.held[i]; !eq(h.s, h.copy) {
			return m.viol("readbytes-result-changed", "the byte string returned by ReadBytes at %d (%q) changed to %q after %s on reader %d: a value the caller holds was overwritten", h.at, clip(h.copy), clip(h.s), op, b.id)
		}
	}
	pos, ln, err := b.r.Pos(), b.r.Len(), b.r.Err()
	if b.eof {
		if err != io.EOF {
			return m.viol("err-not-eof-after-overrun", "reader %d after %s: a read ran past the end but Err() = %v", b.id, op, err)
		}
		if pos < 0 || pos > m.size || pos+ln != m.size {
			return m.viol("pos-len-wrong", "reader %d after %s: Pos()=%d Len()=%d with %d bytes in total", b.id, op, pos, ln, m.size)
		}
		return nil
	}
	if pos != b.pos {
		return m.viol("pos-wrong", "reader %d after %s: Pos() = %d, want %d (size %d)", b.id, op, pos, b.pos, m.size)
	}
	if ln != m.size-b.pos {
		return m.viol("len-wrong", "reader %d after %s: Len() = %d, want %d remaining (size %d, pos %d)", b.id, op, ln, m.size-b.pos, m.size, b.pos)
	}
	if err != nil && !(b.lenient && err == io.EOF) {
		return m.viol("err-set-without-overrun", "reader %d after %s: Err() = %v although no read has run past the end (pos %d of %d)", b.id, op, err, b.pos, m.size)
	}
	return nil
}

func (m *c19) doTyped(b *brModel, kind int) *core.Violation {
	w := int64(kindWidth[kind])
	got := typedRead(b.r, kind)
	m.ctx.L.Ev("Read"+kindNames[kind], int64(got))
	name := "Read" + kindNames[kind]
	if !b.eof && b.pos+w <= m.size {
		want := refDecode(m.data[b.pos:], m.le, int(w), isSigned(kind))
		if got != want {
			return m.viol("typed-value-wrong", "%s at %d = %#x, encoding/binary gives %#x for bytes % x (little-endian=%v)", name, b.pos, got, want, m.data[b.pos:b.pos+w], m.le)
		}
		b.pos += w
	} else {
		if got != 0 {
			return m.viol("nonzero-past-end", "%s at %d with %d bytes left returned %#x, want 0", name, b.pos, m.size-b.pos, got)
		}
		if !b.eof {
			m.ctx.Count("probe_typed_read_ran_past_end")
			if b.pos < m.size {
				m.ctx.Count("probe_typed_read_straddles_end")
			}
		}
		b.eof = true
	}
	return m.checkState(b, name)
}

func (m *c19) doReadBytes(b *brModel, n int64, asString bool) *core.Violation {
	var got []byte
	name := "ReadBytes"
	if asString {
		got = []byte(b.r.ReadString(n))
		name = "ReadString"
	} else {
		got = b.r.ReadBytes(n)
	}
	m.ctx.L.EvB(name, got)
	if !asString && len(got) > 0 && len(m.held) < 32 {
		m.held = append(m.held, heldBytes{s: got, copy: append([]byte(nil), got...), at: b.pos})
	}
	if !asString && m.be != beMmapPath && m.be != beMmapFile {
		// the caller appends to the byte string it was given: that must never write into the
		// source (checked by every later read of the following bytes); not done on the read-only
		// mapping, where such a write would kill the process instead of failing an oracle
		_ = append(got, 0xEE, 0xEE)
	}
	if !b.eof && n <= m.size-b.pos {
		if !eq(got, m.data[b.pos:b.pos+n]) {
			return m.viol("bytes-wrong", "%s(%d) at %d = %q, want %q", name, n, b.pos, clip(got), clip(m.data[b.pos:b.pos+n]))
		}
		b.pos += n
	} else {
		rest := m.data[min(int(b.pos), len(m.data)):]
		if b.eof {
			// after an overrun only "zero values" are promised; an empty result is the zero value of a byte string
			if len(got) > 0 {
				return m.viol("nonzero-past-end", "%s(%d) after an earlier read ran past the end returned %q", name, n, clip(got))
			}
			return m.checkState(b, name)
		}
		if int64(len(got)) >= n || len(got) > len(rest) || !eq(got, rest[:len(got)]) {
			return m.viol("bytes-wrong", "%s(%d) at %d with %d bytes left returned %q (len %d): neither short nor a prefix of the remaining data", name, n, b.pos, len(rest), clip(got), len(got))
		}
		if !b.eof {
			m.ctx.Count("probe_typed_read_ran_past_end")
		}
		b.eof = true
	}
	return m.checkState(b, name)
}

func (m *c19) doReadByte(b *brModel) *core.Violation {
	c, err := b.r.ReadByte()
	m.ctx.L.Ev("ReadByte", int64(c))
	if !b.eof && b.pos < m.size {
		if c != m.data[b.pos] || err != nil {
			return m.viol("typed-value-wrong", "ReadByte at %d = (%#x,%v), want (%#x,nil)", b.pos, c, err, m.data[b.pos])
		}
		b.pos++
	} else {
		if c != 0 || err != io.EOF {
			return m.viol("nonzero-past-end", "ReadByte at the end = (%#x,%v), want (0,EOF)", c, err)
		}
		if !b.eof {
			m.ctx.Count("probe_typed_read_ran_past_end")
		}
		b.eof = true
	}
	return m.checkState(b, "ReadByte")
}

func (m *c19) doRead(b *brModel, n int) *core.Violation {
	p := make([]byte, n)
	for i := range p {
		p[i] = 0xEE
	}
	var arg []byte = p
	if n == 0 && m.ctx.T.Chance(1, 2) {
		arg = nil
	}
	k, err := b.r.Read(arg)
	m.ctx.L.Ev("Read", int64(n), int64(k))
	rem := m.size - b.pos
	if b.eof {
		rem = 0
		if k != 0 {
			return m.viol("read-contract", "Read(%d) after an overrun returned %d bytes", n, k)
		}
		return m.checkState(b, "Read")
	}
	switch {
	case n == 0:
		if k != 0 || (err != nil && !(err == io.EOF && rem == 0)) {
			return m.viol("read-contract", "Read(empty) at %d of %d = (%d,%v), want (0,nil)", b.pos, m.size, k, err)
		}
	case rem == 0:
		if k != 0 || err != io.EOF {
			return m.viol("read-contract", "Read(%d) at the end = (%d,%v), want (0,EOF)", n, k, err)
		}
		b.lenient = true
	default:
		if k < 1 || k > n || int64(k) > rem {
			return m.viol("read-contract", "Read(%d) at %d with %d left returned n=%d err=%v", n, b.pos, rem, k, err)
		}
		if !eq(p[:k], m.data[b.pos:b.pos+int64(k)]) {
			return m.viol("read-data-wrong", "Read(%d) at %d returned %q, want %q", n, b.pos, clip(p[:k]), clip(m.data[b.pos:b.pos+int64(k)]))
		}
		// (p[k:] is not judged: io.Reader allows an implementation to use all of p as scratch space)
		if err != nil && !(err == io.EOF && int64(k) == rem) {
			return m.viol("read-contract", "Read(%d) at %d with %d left = (%d,%v): error although data remain", n, b.pos, rem, k, err)
		}
		if err == io.EOF {
			b.lenient = true
		}
		b.pos += int64(k)
	}
	return m.checkState(b, "Read")
}

func (m *c19) doReadAt(b *brModel, n int, off int64) *core.Violation {
	p := make([]byte, n)
	for i := range p {
		p[i] = 0xEE
	}
	k, err := b.r.ReadAt(p, off)
	m.ctx.L.Ev("ReadAt", int64(n), off, int64(k))
	avail := m.size - off
	if avail < 0 {
		avail = 0
	}
	want := int64(n)
	if want > avail {
		want = avail
	}
	if int64(k) != want {
		return m.viol("readat-contract", "ReadAt(len %d, off %d) on %d bytes returned n=%d, want %d (err %v)", n, off, m.size, k, want, err)
	}
	if k > 0 && !eq(p[:k], m.data[off:off+int64(k)]) {
		return m.viol("readat-data-wrong", "ReadAt(len %d, off %d) returned %q, want %q", n, off, clip(p[:k]), clip(m.data[off:off+int64(k)]))
	}
	if k < n {
		if err != io.EOF {
			return m.viol("readat-contract", "ReadAt(len %d, off %d) on %d bytes returned n=%d < len(p) with err=%v, want io.EOF", n, off, m.size, k, err)
		}
		b.lenient = true
	} else if err != nil {
		if !(err == io.EOF && off+int64(n) == m.size && n > 0) && !(err == io.EOF && n == 0 && off >= m.size) {
			return m.viol("readat-contract", "ReadAt(len %d, off %d) on %d bytes filled p but returned err=%v", n, off, m.size, err)
		}
		b.lenient = true
	}
	return m.checkState(b, "ReadAt") // must not move Pos
}

func (m *c19) doSeek(b *brModel, target int64, whence int) *core.Violation {
	var off int64
	switch whence {
	case io.SeekStart:
		off = target
	case io.SeekCurrent:
		off = target - b.pos
	case io.SeekEnd:
		off = target - m.size
	}
	ref := bytes.NewReader(m.data)
	ref.Seek(b.pos, io.SeekStart)
	wantPos, wantErr := ref.Seek(off, whence)
	got, err := b.r.Seek(off, whence)
	m.ctx.L.Ev("Seek", off, int64(whence), got)
	if got != wantPos || (err == nil) != (wantErr == nil) {
		return m.viol("seek-wrong", "Seek(%d, %d) from %d on %d bytes = (%d,%v), bytes.Reader gives (%d,%v)", off, whence, b.pos, m.size, got, err, wantPos, wantErr)
	}
	b.pos = wantPos
	m.ctx.SigAdd(uint64(100 + whence))
	return m.checkState(b, fmt.Sprintf("Seek(%d,%d)", off, whence))
}

// doSeekOutside issues a Seek whose target lies outside [0, size] or whose whence is
// invalid. io.Seeker: a target before the start is an error; beyond the end either is
// allowed. An erroring Seek must leave the position alone.
func (m *c19) doSeekOutside(b *brModel, kind int, delta int64) *core.Violation {
	var off int64
	whence := m.ctx.T.Draw(3)
	target := -1 - delta // before the start
	switch kind {
	case 1:
		target = m.size + 1 + delta // beyond the end
	case 2:
		whence = 3 + m.ctx.T.Draw(3) // invalid whence
		target = b.pos
	}
	switch whence {
	case io.SeekStart:
		off = target
	case io.SeekCurrent:
		off = target - b.pos
	case io.SeekEnd:
		off = target - m.size
	default:
		off = 0
	}
	got, err := b.r.Seek(off, whence)
	m.ctx.L.Ev("SeekOutside", off, int64(whence), got)
	m.ctx.Count("probe_seek_outside")
	if err != nil {
		return m.checkState(b, fmt.Sprintf("failed Seek(%d,%d)", off, whence)) // position unchanged
	}
	switch kind {
	case 0:
		return m.viol("seek-wrong", "Seek(%d, %d) from %d on %d bytes moves before the start (returned %d) without an error", off, whence, b.pos, m.size, got)
	case 2:
		return m.viol("seek-wrong", "Seek(%d, whence %d) returned no error for an invalid whence", off, whence)
	}
	// beyond the end and accepted: the position must be what was asked for; come back inside
	if got != target || b.r.Pos() != target {
		return m.viol("seek-wrong", "Seek(%d, %d) to %d (beyond the %d bytes) succeeded but reports position %d / Pos() %d", off, whence, target, m.size, got, b.r.Pos())
	}
	b.pos = target
	return m.doSeek(b, m.size, io.SeekStart)
}

// ---------------------------------------------------------------- the run

// RunC19 is one simulated execution for property C19.
func RunC19(ctx *core.Ctx) *core.Violation {
	t := ctx.T
	switch t.Weighted(20, 2, 3) {
	case 1:
		return runC19Bitmap(ctx)
	case 2:
		return runC19Parallel(ctx)
	}
	m := &c19{ctx: ctx}
	defer m.closeAll()
	m.le = t.Chance(1, 2)
	m.be = t.Draw(nBackends)
	ioerr := beSimulated(m.be) && t.Chance(1, 5)
	mirror := t.Chance(1, 2)

	// ---- writer phase
	var prefix []byte
	if t.Chance(1, 4) {
		prefix = genData(t, 1+t.Draw(5), 2)
	}
	wbuf := make([]byte, len(prefix), len(prefix)+t.Pick(0, 0, 3, 64))
	copy(wbuf, prefix)
	for i := range wbuf[len(wbuf):cap(wbuf)] {
		wbuf[len(wbuf):cap(wbuf)][i] = 0xC3 // a recycled buffer: stale bytes in the spare capacity
	}
	if len(prefix) == 0 && t.Chance(1, 3) {
		wbuf = nil // the zero writer: NewBinaryWriter(nil)
	}
	w := parse.NewBinaryWriter(wbuf)
	if m.le {
		w.ByteOrder = binary.LittleEndian
	}
	ref := append([]byte(nil), prefix...)
	wle := m.le
	mib := false
	var ops []wrOp
	nW := t.Weighted(1, 3, 6, 3)
	nW = []int{0, 1 + t.Draw(2), 3 + t.Draw(6), 9 + t.Draw(24)}[nW]
	for i := 0; i < nW; i++ {
		if t.Chance(1, 10) {
			// the byte order is a plain exported field: switching it between two calls is legal
			wle = !wle
			if wle {
				w.ByteOrder = binary.LittleEndian
			} else {
				w.ByteOrder = binary.BigEndian
			}
			ctx.Count("probe_byte_order_switched")
		}
		op := wrOp{kind: t.Draw(nKinds), le: wle}
		if kw := kindWidth[op.kind]; kw > 0 {
			op.val = drawInt(t, kw, isSigned(op.kind))
			ref = refEncode(ref, wle, kw, op.val)
		} else {
			ln := t.Draw(7)
			if t.Chance(1, 40) {
				ln = t.Pick(t.Range(1000, 9000), 4095, 4096, 4097, 65535, 65536, 70000) // larger than a page, around thresholds
				ctx.Count("probe_big_blob")
				if t.Chance(1, 60) {
					ln = t.Pick(1<<20+1, 1<<20+4097, 3<<19, 2<<20+5) + t.Draw(2) // a record above 1 MiB
					mib = true
					ctx.Count("probe_mib_blob")
				}
			}
			op.b = genData(t, ln, 2)
			ref = append(ref, op.b...)
		}
		doWrite(w, op)
		ops = append(ops, op)
		ctx.SigAdd(uint64(op.kind))
		if int64(len(ref)) != w.Len() {
			return ctx.Viol("C19/writer-len-wrong", fmt.Sprintf("op=Write%s", kindNames[op.kind]), "after Write%s: Len() = %d, want %d", kindNames[op.kind], w.Len(), len(ref))
		}
	}
	ctx.L.EvB("written", w.Bytes())
	if !eq(w.Bytes(), ref) {
		return ctx.Viol("C19/writer-bytes-wrong", fmt.Sprintf("le=%v", m.le), "BinaryWriter produced % x, encoding/binary gives % x (little-endian=%v, prefix % x)", w.Bytes(), ref, m.le, prefix)
	}
	W := append([]byte(nil), ref...)

	// ---- truncation ("torn file")
	T := len(W)
	truncated := false
	if len(W) > 0 && t.Chance(1, 3) {
		T = t.Draw(len(W) + 1)
		truncated = T < len(W)
	}
	if mib && t.Chance(1, 2) {
		// a very large record cut short somewhere in its last part, on a forward-only stream as
		// often as on all other backends together
		T = len(W) - 1 - t.Draw(min(len(W), 1<<20))
		truncated = true
		if t.Chance(1, 2) {
			m.be = beStream
		}
		ctx.Count("probe_mib_blob_truncated")
	}
	m.data = W[:T:T]
	m.size = int64(T)
	if m.be == beReaderAt && T == 0 {
		m.be = beStream // documented: the ReaderAt backend is chosen only for 0 < n
	}

	plan := faultio.Plan{FailAt: -1}
	if beSimulated(m.be) {
		plan = faultio.DrawPlan(t, T, false)
		plan.ZeroReads = false // (0,nil) reads are not injected for C19: BinaryReader turns them into an error and the property is silent about them
		if plan.EOFStyle == faultio.EOFAfterZero {
			plan.EOFStyle = faultio.EOFAfter
		}
		if ioerr {
			plan.FailAt = t.Range(0, T)
			plan.FailWith = t.Chance(1, 2)
			plan.Err = faultio.ErrInjected
		}
	}
	stale := !ioerr && truncated && (m.be == beSeeker || m.be == beReaderAt || m.be == beStream) && t.Chance(1, 3)
	mode := "model"
	if ioerr {
		mode = "ioerr"
	}
	if stale {
		// the size announced to the constructor is that of the intact data: a torn file
		m.declared = int64(len(W))
		mode = "stale-size"
	}
	m.facts = fmt.Sprintf("backend=%s mode=%s", beNames[m.be], mode)
	ctx.SigAdd(uint64(m.be)<<4 | uint64(len(prefix)&1)<<1)
	if m.le {
		ctx.SigAdd(3)
	}
	ctx.Describe("C19: backend=%s littleEndian=%v prefix=% x writes=%d bytes=% x truncatedAt=%d/%d mirror=%v", beNames[m.be], m.le, prefix, len(ops), clip(W), T, len(W), mirror)
	if beSimulated(m.be) {
		ctx.Describe("reader plan: chunk=%d fixed=%d eofStyle=%d failAt=%d failWithData=%v", plan.Chunk, plan.Fixed, plan.EOFStyle, plan.FailAt, plan.FailWith)
	}
	if truncated {
		ctx.NonT = true
		ctx.Count("fault_truncated")
	}

	r, err := m.open(m.be, m.data, plan)
	if ioerr {
		return m.runIOErr(r, err, ops, len(prefix), plan)
	}
	if stale {
		if err != nil || r == nil {
			return m.viol("open-failed", "constructor failed: %v", err)
		}
		return m.runStaleSize(r)
	}
	if err != nil || r == nil {
		return m.viol("open-failed", "constructor failed on intact data: %v", err)
	}
	if ib := r.IBinaryReader(); ib == nil || ib.Len() != m.size {
		return m.viol("len-wrong", "IBinaryReader().Len() does not report the %d bytes of the source", m.size)
	}
	_ = r.InPageCache(0, int64(t.Draw(9000)))
	cur := &brModel{r: r, id: 0}
	all := []*brModel{cur}
	if v := m.checkState(cur, "open"); v != nil {
		return v
	}

	if mirror {
		// value for value: skip the prefix, then the mirrored typed reads
		if len(prefix) > 0 {
			if v := m.doReadBytes(cur, int64(len(prefix)), false); v != nil {
				return v
			}
		}
		for _, op := range ops {
			var v *core.Violation
			if op.le != m.le {
				m.setOrder(all, op.le)
			}
			switch {
			case kindWidth[op.kind] > 0 && op.kind != kByte:
				v = m.doTyped(cur, op.kind)
			case op.kind == kByte:
				v = m.doReadByte(cur)
			default:
				v = m.doReadBytes(cur, int64(len(op.b)), op.kind == kString)
			}
			if v != nil {
				return v
			}
		}
		// one more read runs past the end
		if v := m.doTyped(cur, t.Draw(kI64+1)); v != nil {
			return v
		}
		if v := m.doTyped(cur, t.Draw(kI64+1)); v != nil {
			return v
		}
		ctx.Count("probe_mirror_runs")
	} else {
		stopN := t.Pick(6, 20, 60)
		for i := 0; i < 200; i++ {
			if t.Draw(stopN) == 0 {
				break
			}
			if t.Chance(1, 12) {
				m.setOrder(all, !m.le)
				ctx.Count("probe_byte_order_switched")
			}
			op := t.Weighted(8, 3, 1, 2, 3, 3, 4, 1, 1)
			ctx.SigAdd(uint64(200 + op))
			var v *core.Violation
			switch op {
			case 0:
				v = m.doTyped(cur, t.Draw(kI64+1))
			case 1:
				n := int64(t.Draw(6))
				if t.Chance(1, 6) {
					n = m.size - cur.pos + int64(t.Draw(3)) - 1 // around the exact fit
					if n < 0 {
						n = 0
					}
				}
				if t.Chance(1, 12) && beMemoryLike(m.be) {
					// a length far beyond the data (e.g. a corrupt length prefix): the memory-like
					// backends clamp to the data; the reader-backed ones allocate n bytes by design,
					// so this is generated only here
					n = []int64{math.MaxInt64, math.MaxInt64 - cur.pos, 1 << 62, math.MaxInt64 - cur.pos/2}[t.Draw(4)]
					ctx.Count("probe_huge_readbytes")
				}
				v = m.doReadBytes(cur, n, t.Chance(1, 3))
			case 2:
				v = m.doReadByte(cur)
			case 3:
				n := t.Draw(9)
				if t.Chance(1, 4) {
					n = int(m.size-cur.pos) + t.Draw(3) - 1
					if n < 0 {
						n = 0
					}
				}
				v = m.doRead(cur, n)
			case 4:
				if !beSeekable(m.be) {
					continue
				}
				n := t.Draw(9)
				off := int64(t.Draw(T + 3))
				if t.Chance(1, 3) {
					off = int64(T - n) // exact fit at the end
					if off < 0 {
						off = 0
					}
				}
				v = m.doReadAt(cur, n, off)
			case 5:
				if !beSeekable(m.be) || cur.eof {
					continue
				}
				v = m.doSeek(cur, int64(t.Draw(T+1)), t.Draw(3))
			case 6:
				// typed read placed to end exactly at / straddle the end
				if !beSeekable(m.be) || cur.eof {
					continue
				}
				kind := t.Draw(kI64 + 1)
				target := m.size - int64(kindWidth[kind]) + int64(t.Draw(3)) - 1
				if target < 0 || target > m.size {
					continue
				}
				if v = m.doSeek(cur, target, t.Draw(3)); v == nil {
					v = m.doTyped(cur, kind)
				}
			case 8:
				if !beSeekable(m.be) || cur.eof {
					continue
				}
				if t.Chance(1, 3) {
					// a request that must be rejected (io.ReaderAt has no negative offsets): no bytes,
					// an error, and no effect on this reader or its clones afterwards
					p := make([]byte, 1+t.Draw(4))
					n, err := cur.r.ReadAt(p, -1-int64(t.Draw(5)))
					ctx.L.Ev("ReadAtNegative", int64(n))
					ctx.Count("probe_rejected_request")
					if n != 0 || err == nil {
						v = m.viol("readat-contract", "ReadAt at a negative offset returned n=%d err=%v", n, err)
					} else {
						v = m.checkState(cur, "rejected ReadAt")
					}
					break
				}
				v = m.doSeekOutside(cur, t.Draw(3), int64(t.Pick(0, 1, 7, 1<<40)))
			case 7:
				if !beSeekable(m.be) {
					continue
				}
				c := &brModel{r: cur.r.Clone(), pos: cur.pos, eof: cur.eof, lenient: cur.lenient, id: len(all)}
				all = append(all, c)
				ctx.Count("probe_clone")
				if v = m.checkState(c, "Clone"); v == nil && t.Chance(1, 2) {
					cur = c
				}
			}
			if v != nil {
				return v
			}
			if len(all) > 1 && t.Chance(1, 4) {
				cur = all[t.Draw(len(all))]
				// the other readers must not have moved
				for _, o := range all {
					if v := m.checkState(o, "operation on another clone"); v != nil {
						return v
					}
				}
			}
		}
	}
	// the standard library's own statement of io.Reader/ReaderAt/Seeker compliance
	if beSeekable(m.be) && t.Chance(1, 6) {
		fr, err := m.open(m.be, m.data, plan)
		if err != nil {
			return m.viol("open-failed", "constructor failed on intact data: %v", err)
		}
		if e := iotest.TestReader(fr, m.data); e != nil {
			return m.viol("iotest", "testing/iotest.TestReader on %d bytes: %v", len(m.data), e)
		}
		ctx.Count("probe_iotest_runs")
	}
	if ctx.C["fault_short_read"] > 0 || ctx.C["eof_with_data"] > 0 || ctx.C["eof_with_exact_fit"] > 0 {
		ctx.NonT = true
	}
	return nil
}

// runIOErr: injected non-EOF failure at byte F. Demanded: no panic, reads
// entirely before F right, never a non-zero value for a read that crosses F.
func (m *c19) runIOErr(r *parse.BinaryReader, err error, ops []wrOp, prefixLen int, plan faultio.Plan) *core.Violation {
	ctx := m.ctx
	ctx.NonT = true
	ctx.Count("probe_ioerr_runs")
	F := int64(plan.FailAt)
	if r == nil {
		if err == nil {
			return m.viol("open-nil", "constructor returned neither a reader nor an error")
		}
		if m.be == beReadAll || m.be == beSeekerAuto {
			ctx.Count("probe_ioerr_constructor_failed")
			return nil
		}
		return m.viol("open-failed", "constructor failed although it does no I/O on this backend: %v", err)
	}
	var sibling *parse.BinaryReader
	if m.be == beSeeker || m.be == beReaderAt {
		sibling = r.Clone() // shares the backend; must keep working after the other cursor failed
	}
	defer func() {
		_ = sibling
	}()
	pos := int64(0)
	for i := 0; i < 40; i++ {
		kind := ctx.T.Draw(kI64 + 1)
		w := int64(kindWidth[kind])
		got := typedRead(r, kind)
		ctx.L.Ev("Read"+kindNames[kind], int64(got))
		if pos+w <= F && pos+w <= m.size {
			want := refDecode(m.data[pos:], m.le, int(w), isSigned(kind))
			if got != want {
				return m.viol("typed-value-wrong", "ioerr: Read%s at %d lies entirely before the failure at %d but returned %#x, want %#x", kindNames[kind], pos, F, got, want)
			}
			pos += w
		} else {
			if got != 0 {
				return m.viol("nonzero-across-failure", "ioerr: Read%s at %d crosses the failure at %d (size %d) but returned %#x", kindNames[kind], pos, F, m.size, got)
			}
			ctx.Count("probe_ioerr_read_crossed_failure")
			break
		}
	}
	if sibling != nil && F >= 2 && m.size >= 2 { // byte 0 then ends strictly before F: no error can come with it
		// the failure of one cursor is not the failure of the backend: a sibling reading bytes
		// that lie entirely before F still gets them
		got := sibling.ReadUint8()
		ctx.L.Ev("SiblingReadUint8", int64(got))
		ctx.Count("probe_ioerr_sibling_read")
		if got != m.data[0] || sibling.Err() != nil {
			return m.viol("sibling-poisoned", "after another cursor failed at byte %d, a clone reading byte 0 got %#x (want %#x) with Err() = %v", F, got, m.data[0], sibling.Err())
		}
	}
	// further calls must not panic
	r.ReadBytes(3)
	r.ReadByte()
	r.ReadUint8()
	r.Read(make([]byte, 4))
	if beSeekable(m.be) {
		r.ReadAt(make([]byte, 4), 0)
	}
	return nil
}

// runStaleSize: the source holds T bytes but the constructor was told the size of the intact
// data. Demanded: reads entirely before T return the written values with Err()==nil; the
// first read that runs past T returns zero and makes Err() io.EOF; zero from then on. Pos
// and Len are not judged (Len is derived from the announced size).
func (m *c19) runStaleSize(r *parse.BinaryReader) *core.Violation {
	ctx := m.ctx
	ctx.NonT = true
	ctx.Count("probe_stale_size_runs")
	pos := int64(0)
	over := false
	for i := 0; i < 60; i++ {
		kind := ctx.T.Draw(kI64 + 1)
		w := int64(kindWidth[kind])
		got := typedRead(r, kind)
		ctx.L.Ev("Read"+kindNames[kind], int64(got))
		if !over && pos+w <= m.size {
			want := refDecode(m.data[pos:], m.le, int(w), isSigned(kind))
			if got != want {
				return m.viol("typed-value-wrong", "torn source (%d of %d announced bytes): Read%s at %d = %#x, want %#x", m.size, m.declared, kindNames[kind], pos, got, want)
			}
			if e := r.Err(); e != nil {
				return m.viol("err-set-without-overrun", "torn source (%d of %d announced bytes): Err() = %v after Read%s at %d, which lies entirely inside the data", m.size, m.declared, e, kindNames[kind], pos)
			}
			pos += w
			continue
		}
		if got != 0 {
			return m.viol("nonzero-past-end", "torn source (%d of %d announced bytes): Read%s at %d runs past the data but returned %#x", m.size, m.declared, kindNames[kind], pos, got)
		}
		if e := r.Err(); e != io.EOF {
			return m.viol("err-not-eof-after-overrun", "torn source (%d of %d announced bytes): Read%s at %d ran past the data but Err() = %v", m.size, m.declared, kindNames[kind], pos, e)
		}
		if !over {
			ctx.Count("probe_stale_size_overrun")
		}
		over = true
		if i > 8 && ctx.T.Chance(1, 3) {
			break
		}
	}
	return nil
}

// ---------------------------------------------------------------- bitmap

func runC19Bitmap(ctx *core.Ctx) *core.Violation {
	t := ctx.T
	facts := "kind=bitmap"
	ctx.Count("probe_bitmap_runs")
	if t.Chance(1, 2) {
		// written bits come back in order
		n := t.Draw(70)
		if t.Chance(1, 40) {
			n = t.Pick(255, 256, 2047, 2048, 65535, 65536, 65537, 70001) // bit counts around byte, page and 2^16 boundaries
			ctx.Count("probe_bitmap_large")
		}
		var pre []byte
		if t.Chance(1, 3) {
			// a recycled buffer: length 0, spare capacity full of old content
			dirty := genData(t, 1+t.Draw(12), 2)
			for i := range dirty {
				dirty[i] |= 0x81
			}
			pre = dirty[:0]
			ctx.Count("probe_bitmap_recycled_buffer")
		}
		w := parse.NewBitmapWriter(pre)
		bits := make([]bool, n)
		for i := range bits {
			bits[i] = t.Chance(1, 2)
			w.Write(bits[i])
		}
		buf := w.Bytes()
		ctx.L.EvB("bitmap", buf)
		ctx.Describe("C19 bitmap: wrote %d bits -> % x", n, buf)
		if int64(len(buf)) != w.Len() {
			return ctx.Viol("C19/bitmap-len", facts, "BitmapWriter.Len() = %d, len(Bytes()) = %d", w.Len(), len(buf))
		}
		if len(buf)*8 < n {
			return ctx.Viol("C19/bitmap-writer-lost-bits", facts, "%d bits written but the buffer has %d bytes", n, len(buf))
		}
		r := parse.NewBitmapReader(buf)
		for i := 0; i < n; i++ {
			b := r.Read()
			if r.EOF() {
				return ctx.Viol("C19/bitmap-early-eof", facts, "BitmapReader reports EOF at bit %d of %d written (buffer % x)", i, n, buf)
			}
			if b != bits[i] {
				return ctx.Viol("C19/bitmap-bit-wrong", facts, "bit %d read back as %v, written as %v (buffer % x)", i, b, bits[i], buf)
			}
			if r.Pos() != uint32(i+1) {
				return ctx.Viol("C19/bitmap-pos", facts, "Pos() = %d after %d reads", r.Pos(), i+1)
			}
		}
		ctx.SigAdd(uint64(n))
		ctx.NonT = n > 0
		return nil
	}
	// a reader over any buffer yields all 8*len bits, MSB first, then EOF
	buf := genData(t, t.Draw(12), 2)
	ctx.Describe("C19 bitmap: read arbitrary buffer % x", buf)
	r := parse.NewBitmapReader(buf)
	for i := 0; i < 8*len(buf); i++ {
		b := r.Read()
		if r.EOF() {
			return ctx.Viol("C19/bitmap-early-eof", facts, "BitmapReader over %d bytes reports EOF at bit %d of %d", len(buf), i, 8*len(buf))
		}
		want := buf[i/8]&(0x80>>(uint(i)%8)) != 0
		if b != want {
			return ctx.Viol("C19/bitmap-bit-wrong", facts, "bit %d of % x read as %v", i, buf, b)
		}
	}
	if r.EOF() {
		return ctx.Viol("C19/bitmap-early-eof", facts, "EOF() true before any read past the end (%d bytes)", len(buf))
	}
	if b := r.Read(); b || !r.EOF() {
		return ctx.Viol("C19/bitmap-no-eof", facts, "read past the end of %d bytes returned %v, EOF()=%v", len(buf), b, r.EOF())
	}
	if b := r.Read(); b || !r.EOF() {
		return ctx.Viol("C19/bitmap-no-eof", facts, "second read past the end returned %v, EOF()=%v", b, r.EOF())
	}
	ctx.SigAdd(uint64(1000 + len(buf)))
	ctx.NonT = len(buf) > 0
	ctx.Count("probe_bitmap_full_buffer")
	return nil
}
