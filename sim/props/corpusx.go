package props

import (
	"encoding/json"
	"go/ast"
	"go/parser"
	"go/token"
	"os"
	"path/filepath"
	"sort"
	"strconv"
)

// Extra corpus: the string literals of the library's own test files (the inputs and expected
// outputs of its unit tests), extracted once per check by `vsim corpus` and loaded by every
// worker and child process from the file named in VERIF_CORPUS. It multiplies the variety of
// syntactic constructs the C20 workloads push through the lexers, parsers and printers.

var dirLang = map[string]int{"css": 0, "html": 1, "xml": 2, "json": 3, "js": 4, "strconv": 5, ".": 6, "buffer": 6}

// ExtractCorpus scans <repo>/**/*_test.go and writes the literals grouped by language.
func ExtractCorpus(repo, out string) (int, error) {
	groups := make([][]string, len(corpus))
	seen := map[string]bool{}
	dirs := make([]string, 0, len(dirLang))
	for d := range dirLang {
		dirs = append(dirs, d)
	}
	sort.Strings(dirs)
	total := 0
	for _, d := range dirs {
		files, _ := filepath.Glob(filepath.Join(repo, d, "*_test.go"))
		sort.Strings(files)
		for _, f := range files {
			fset := token.NewFileSet()
			af, err := parser.ParseFile(fset, f, nil, 0)
			if err != nil {
				continue
			}
			ast.Inspect(af, func(n ast.Node) bool {
				if imp, ok := n.(*ast.ImportSpec); ok && imp != nil {
					return false
				}
				bl, ok := n.(*ast.BasicLit)
				if !ok || bl.Kind != token.STRING {
					return true
				}
				s, err := strconv.Unquote(bl.Value)
				if err != nil || len(s) == 0 || len(s) > 300 {
					return true
				}
				key := d + "\x00" + s
				if !seen[key] {
					seen[key] = true
					groups[dirLang[d]] = append(groups[dirLang[d]], s)
					total++
				}
				return true
			})
		}
	}
	b, err := json.Marshal(groups)
	if err != nil {
		return 0, err
	}
	return total, os.WriteFile(out, b, 0o644)
}

var extraCorpus [][]string

func init() {
	p := os.Getenv("VERIF_CORPUS")
	if p == "" {
		return
	}
	b, err := os.ReadFile(p)
	if err != nil {
		return
	}
	var g [][]string
	if json.Unmarshal(b, &g) == nil && len(g) == len(corpus) {
		extraCorpus = g
	}
}

// ExtraCorpusSize reports how many extracted inputs are loaded.
func ExtraCorpusSize() int {
	n := 0
	for _, g := range extraCorpus {
		n += len(g)
	}
	return n
}
