// Package core holds the pieces every simulated run shares: the choice tape
// (the single source of every decision), the event log with its digest, the
// per-run statistics and the violation type.
package core

import (
	"bytes"
	"fmt"
	"os"
	"runtime"
	"sort"
	"strconv"
	"strings"
	"syscall"
	"time"
)

// ---------------------------------------------------------------- mixing

// Mix is splitmix64's finaliser applied to a^b-ish combination.
func Mix(a, b uint64) uint64 {
	x := a + 0x9e3779b97f4a7c15*(b+1)
	x ^= x >> 30
	x *= 0xbf58476d1ce4e5b9
	x ^= x >> 27
	x *= 0x94d049bb133111eb
	x ^= x >> 31
	return x
}

// RunSeed derives the seed of run r of property p from VERIF_SEED.
func RunSeed(seed uint64, prop string, r int) uint64 {
	h := seed
	for i := 0; i < len(prop); i++ {
		h = Mix(h, uint64(prop[i]))
	}
	return Mix(h, uint64(r))
}

// ---------------------------------------------------------------- tape

// Tape is the only source of choices in a run. While exploring, values come
// from a splitmix64 stream; while replaying they come from a recorded slice
// (an exhausted slice yields 0, which every generator treats as the simplest
// choice). In both modes the values actually used are recorded in Rec, so the
// recorded tape of any execution is a normalised replay tape of it.
type Tape struct {
	state  uint64
	replay []uint32
	useRep bool
	idx    int
	Rec    []uint32
}

func NewTape(seed uint64) *Tape { return &Tape{state: seed} }

func ReplayTape(v []uint32) *Tape { return &Tape{replay: v, useRep: true} }

func (t *Tape) next() uint64 {
	t.state += 0x9e3779b97f4a7c15
	z := t.state
	z = (z ^ (z >> 30)) * 0xbf58476d1ce4e5b9
	z = (z ^ (z >> 27)) * 0x94d049bb133111eb
	return z ^ (z >> 31)
}

// Draw returns a value in [0,n). n<=1 consumes nothing.
func (t *Tape) Draw(n int) int {
	if n <= 1 {
		return 0
	}
	var v uint32
	if t.useRep {
		if t.idx < len(t.replay) {
			v = t.replay[t.idx] % uint32(n)
		}
		t.idx++
	} else {
		v = uint32(t.next() % uint64(n))
	}
	t.Rec = append(t.Rec, v)
	return int(v)
}

// Range returns a value in [lo,hi].
func (t *Tape) Range(lo, hi int) int {
	if hi <= lo {
		return lo
	}
	return lo + t.Draw(hi-lo+1)
}

// Chance is true with probability num/den; a zero draw is always false.
func (t *Tape) Chance(num, den int) bool {
	return t.Draw(den) >= den-num
}

// Weighted picks an index with the given weights; index 0 is the zero draw.
func (t *Tape) Weighted(w ...int) int {
	sum := 0
	for _, x := range w {
		sum += x
	}
	v := t.Draw(sum)
	for i, x := range w {
		if v < x {
			return i
		}
		v -= x
	}
	return len(w) - 1
}

// Pick returns one of the given ints.
func (t *Tape) Pick(v ...int) int { return v[t.Draw(len(v))] }

// Sub returns a private deterministic byte generator seeded by one draw; used
// for bulk data so that long inputs cost one tape entry.
func (t *Tape) Sub() *Tape { return NewTape(Mix(0x5ab, uint64(t.Draw(1<<30)))) }

// Exploring reports whether values come from the PRNG.
func (t *Tape) Exploring() bool { return !t.useRep }

// ---------------------------------------------------------------- log

// Log numbers the simulated events of a run and folds them into a digest.
// With Trace set it also keeps a readable line per event (replay files).
type Log struct {
	Seq      int
	Digest   uint64 // all events
	OpDigest uint64 // events of the caller and the oracle only (no device-level events)
	Trace    bool
	Lines    []string
	// MuteDevLines: device-level events stay in the digests but get no trace line.
	MuteDevLines bool
	dev          bool
}

func (l *Log) fold(x uint64) {
	l.Digest = (l.Digest ^ x) * 0x100000001b3
	if !l.dev {
		l.OpDigest = (l.OpDigest ^ x) * 0x100000001b3
	}
}

// EvDev records a device-level event (a Read served by a simulated source): part of the
// full digest, not of the operation digest, because how often and with what buffer sizes
// the library calls its reader is not an observable the properties constrain.
func (l *Log) EvDev(kind string, a ...int64) {
	l.dev = true
	l.Ev(kind, a...)
	l.dev = false
}

// Ev records an event.
func (l *Log) Ev(kind string, a ...int64) {
	l.Seq++
	tick()
	h := uint64(0xcbf29ce484222325)
	for i := 0; i < len(kind); i++ {
		h = (h ^ uint64(kind[i])) * 0x100000001b3
	}
	l.fold(h)
	for _, x := range a {
		l.fold(uint64(x) + 0x9e37)
	}
	if l.Trace && !(l.dev && l.MuteDevLines) {
		var sb strings.Builder
		fmt.Fprintf(&sb, "%d %s", l.Seq, kind)
		for _, x := range a {
			fmt.Fprintf(&sb, " %d", x)
		}
		l.Lines = append(l.Lines, sb.String())
	}
}

// EvB records an event carrying bytes.
func (l *Log) EvB(kind string, b []byte) {
	l.Ev(kind, int64(len(b)))
	for _, c := range b {
		l.fold(uint64(c) + 1)
	}
	if l.Trace {
		n := len(b)
		if n > 48 {
			n = 48
		}
		l.Lines[len(l.Lines)-1] += fmt.Sprintf(" %q", b[:n])
	}
}

// Note adds free text to the trace only (never to the digest decisions).
func (l *Log) Note(format string, a ...interface{}) {
	if l.Trace {
		l.Lines = append(l.Lines, "  # "+fmt.Sprintf(format, a...))
	}
}

// ---------------------------------------------------------------- violation

// Violation is an oracle verdict against the code under test.
type Violation struct {
	Class string `json:"class"` // short stable string, e.g. C13/held-slice-changed
	Facts string `json:"facts"` // discriminating facts of the run (backend=..., op=...)
	Msg   string `json:"msg"`
	Event int    `json:"event"`
}

func (v *Violation) String() string {
	return fmt.Sprintf("%s [%s] at event %d: %s", v.Class, v.Facts, v.Event, v.Msg)
}

// Abort is panicked by simulated devices (e.g. a reader that is being called
// in an endless loop) to end the run with a violation.
type Abort struct{ V *Violation }

// HarnessPanic marks a panic that did not originate in the library.
type HarnessPanic struct {
	Val   interface{}
	Stack string
}

// ---------------------------------------------------------------- ctx

// Ctx is what a run function gets.
type Ctx struct {
	T       *Tape
	L       *Log
	C       map[string]int64 // counters (fault kinds fired, probes)
	Sig     uint64           // run signature (hash of the abstracted history)
	NonT    bool             // non-trivial by the property's rule
	Desc    []string         // human description of the run (config, ops) for samples/replay
	Prop    string
	devIdle int
	// Sub is set by the driver: a hook to run one workload in a fresh process (C20).
	Env map[string]string
}

func NewCtx(prop string, t *Tape, trace bool) *Ctx {
	return &Ctx{T: t, L: &Log{Trace: trace}, C: map[string]int64{}, Prop: prop, Sig: 0x811c9dc5}
}

// DevCall is told by the simulated seekable sources how many bytes each device call delivered. A
// library that keeps calling its source without obtaining a byte (a retry loop that never gives
// up, a Seek loop) is stopped with a verdict; the bound is far above what the caller operations of
// any run can cause legitimately (each causes a handful of device calls).
func (c *Ctx) DevCall(n int) {
	if n > 0 {
		c.devIdle = 0
		return
	}
	if c.devIdle++; c.devIdle > 50000 {
		panic(Abort{V: &Violation{Class: c.Prop + "/livelock-device", Msg: "more than 50000 consecutive calls of the underlying source (Seek, Read, ReadAt) without a single byte delivered"}})
	}
}

func (c *Ctx) Count(k string)        { c.C[k]++ }
func (c *Ctx) Add(k string, n int64) { c.C[k] += n }
func (c *Ctx) SigAdd(x uint64)       { c.Sig = (c.Sig ^ x) * 0x100000001b3 }
func (c *Ctx) Describe(f string, a ...interface{}) {
	if c.L.Trace {
		c.Desc = append(c.Desc, fmt.Sprintf(f, a...))
	}
}

func (c *Ctx) Viol(class, facts, format string, a ...interface{}) *Violation {
	return &Violation{Class: class, Facts: facts, Msg: fmt.Sprintf(format, a...), Event: c.L.Seq}
}

// ---------------------------------------------------------------- executor

// progressTick counts simulator events of this process. It is a plain variable touched only in
// //go:norace functions: the watcher below reads it from another goroutine, and neither an atomic
// nor a lock may be used here, because either would order the tasks of a C20 run for the race
// detector (sched's baton has the same constraint).
var progressTick uint64

//go:norace
func tick() { progressTick++ }

//go:norace
func ticks() uint64 { return progressTick }

// Tick lets the scheduler count its decisions as progress (an interleaved phase logs its events
// only when it is over).
//
//go:norace
func Tick() { progressTick++ }

// CPUNow, HangCPU and SpinningIn are shared with the scheduler, which applies the same rule to the
// task that holds the baton.
func CPUNow() time.Duration                             { return cpuNow() }
func HangCPU() time.Duration                            { return hangCPU }
func SpinningIn(buf *[]byte, g uint64) (string, string) { return spinningInBuf(buf, g) } // (own buffer: Exec's watcher may be looking at the same time)

// cpuNow is the CPU time this process has used (user + system). A run that spends hangCPU of it
// inside one library call without producing a single simulator event is not slow, it is not
// coming back: CPU time, unlike wall time, does not grow because the machine is busy.
func cpuNow() time.Duration {
	var ru syscall.Rusage
	if syscall.Getrusage(syscall.RUSAGE_SELF, &ru) != nil {
		return 0
	}
	return time.Duration(ru.Utime.Nano() + ru.Stime.Nano())
}

var hangCPU = func() time.Duration {
	if v, err := strconv.Atoi(os.Getenv("VERIF_HANG_CPU_MS")); err == nil && v > 0 {
		return time.Duration(v) * time.Millisecond
	}
	return 20 * time.Second
}()

const libPrefix = "github.com/tdewolff/parse/v2"

// RunFunc is one simulated execution.
type RunFunc func(*Ctx) *Violation

// Result of executing a run.
type Result struct {
	V       *Violation
	Harness *HarnessPanic
	Ctx     *Ctx
}

// Exec runs f, converting a panic that originates in the library into a
// violation of class <prop>/panic and any other panic into a HarnessPanic.
func Exec(prop string, t *Tape, trace bool, f RunFunc) (res Result) {
	ctx := NewCtx(prop, t, trace)
	res.Ctx = ctx
	// The run executes on its own goroutine so that a run that can never finish - the library
	// waiting for a lock nobody will release - is a verdict instead of a hung worker.
	done := make(chan struct{})
	gidc := make(chan uint64, 1)
	go func() {
		defer close(done)
		gidc <- curGoid()
		execBody(prop, ctx, f, &res)
	}()
	gid := <-gidc
	wait := time.NewTimer(deadlockGrace) // wall clock only decides WHEN we look; a deadlock is permanent
	defer wait.Stop()
	same, last := 0, uint64(0)
	lastTick, cpuAtTick := ticks(), cpuNow()
	for {
		select {
		case <-done:
			return
		case <-wait.C:
		}
		blocked, h, body := blockedStack(gid)
		if tk := ticks(); tk != lastTick || blocked {
			lastTick, cpuAtTick = tk, cpuNow()
		} else if used := cpuNow() - cpuAtTick; used >= hangCPU {
			// no simulator event for hangCPU of CPU time: where is the run goroutine?
			if fn, where := spinningIn(gid); fn != "" {
				return Result{Ctx: ctx, V: &Violation{Class: prop + "/hang", Facts: "in=" + shortFn(fn), Msg: "the call never returns: no simulator event (operation, device call) during " + used.Round(time.Second).String() + " of CPU time spent inside the library, at " + where}} // (the context belongs to the spinning goroutine: not read here)
			}
			lastTick, cpuAtTick = ticks(), cpuNow() // harness code or a scheduler goroutine: the worker watchdog's business
		}
		if blocked && h == last {
			same++
		} else {
			same = 0
		}
		last = h
		if blocked && same >= 6 {
			st := string(body)
			fn, where := libFrame(st)
			if fn == "" {
				res = Result{Ctx: ctx, Harness: &HarnessPanic{Val: "the run blocks forever on a lock outside the library", Stack: st}}
				return
			}
			// the goroutine stays blocked (and keeps res of its own); hand out a fresh Result
			return Result{Ctx: ctx, V: &Violation{Class: prop + "/deadlock", Facts: "in=" + shortFn(fn), Msg: "the call never returns: it waits for a lock that nothing will release, at " + where}} // (the context belongs to the blocked goroutine: not read here)
		}
		wait.Reset(250 * time.Millisecond)
	}
}

const deadlockGrace = 1500 * time.Millisecond

func execBody(prop string, ctx *Ctx, f RunFunc, res *Result) {
	defer func() {
		if r := recover(); r != nil {
			if a, ok := r.(Abort); ok {
				res.V = a.V
				if res.V.Event == 0 {
					res.V.Event = ctx.L.Seq
				}
				return
			}
			fn, where := panicOrigin()
			if strings.HasPrefix(fn, libPrefix) {
				res.V = &Violation{Class: prop + "/panic", Facts: "in=" + shortFn(fn), Msg: fmt.Sprintf("panic: %v at %s", r, where), Event: ctx.L.Seq}
				return
			}
			buf := make([]byte, 1<<14)
			buf = buf[:runtime.Stack(buf, false)]
			res.Harness = &HarnessPanic{Val: r, Stack: string(buf)}
		}
	}()
	res.V = f(ctx)
}

func curGoid() uint64 {
	var buf [64]byte
	b := buf[:runtime.Stack(buf[:], false)]
	b = bytes.TrimPrefix(b, []byte("goroutine "))
	var id uint64
	for _, c := range b {
		if c < '0' || c > '9' {
			break
		}
		id = id*10 + uint64(c-'0')
	}
	return id
}

// The watcher must not disturb what a run measures (C13 compares the live heap before and
// after a stream): its buffer exists before the first run and a look allocates nothing.
var watchBuf = make([]byte, 1<<18)

// blockedStack reports whether goroutine g is waiting for a sync.Mutex / RWMutex; if so it
// returns a hash of its stack (without the header line, which contains the waiting time) and
// the stack itself as a sub-slice of the watcher's buffer.
func blockedStack(g uint64) (bool, uint64, []byte) {
	n := runtime.Stack(watchBuf, true)
	for n >= len(watchBuf) {
		watchBuf = make([]byte, 2*len(watchBuf)) // (very many goroutines: never seen; would show up as one allocation)
		n = runtime.Stack(watchBuf, true)
	}
	all := watchBuf[:n]
	var hb [40]byte
	head := append(strconv.AppendUint(append(hb[:0], "goroutine "...), g, 10), " ["...)
	for off := 0; off < len(all); {
		blk := all[off:]
		if e := bytes.Index(blk, []byte("\n\n")); e >= 0 {
			blk = blk[:e]
			off += e + 2
		} else {
			off = len(all)
		}
		if !bytes.HasPrefix(blk, head) {
			continue
		}
		st := blk[len(head):]
		if !bytes.HasPrefix(st, []byte("sync.Mutex.Lock")) && !bytes.HasPrefix(st, []byte("sync.RWMutex.")) {
			return false, 0, nil
		}
		i := bytes.IndexByte(blk, '\n')
		if i < 0 {
			return false, 0, nil
		}
		body := blk[i+1:]
		h := uint64(0xcbf29ce484222325)
		for _, c := range body {
			h = (h ^ uint64(c)) * 0x100000001b3
		}
		return true, h, body
	}
	return false, 0, nil
}

// spinningIn reports the innermost frame of goroutine g among library and harness frames when g is
// running (or runnable) and that frame is library code.
func spinningIn(g uint64) (string, string) { return spinningInBuf(&watchBuf, g) }

func spinningInBuf(bufp *[]byte, g uint64) (string, string) {
	n := runtime.Stack(*bufp, true)
	for n >= len(*bufp) {
		*bufp = make([]byte, 2*len(*bufp))
		n = runtime.Stack(*bufp, true)
	}
	all := (*bufp)[:n]
	var hb [40]byte
	head := append(strconv.AppendUint(append(hb[:0], "goroutine "...), g, 10), " ["...)
	for off := 0; off < len(all); {
		blk := all[off:]
		if e := bytes.Index(blk, []byte("\n\n")); e >= 0 {
			blk = blk[:e]
			off += e + 2
		} else {
			off = len(all)
		}
		if !bytes.HasPrefix(blk, head) {
			continue
		}
		st := blk[len(head):]
		if !bytes.HasPrefix(st, []byte("running")) && !bytes.HasPrefix(st, []byte("runnable")) {
			return "", ""
		}
		lines := strings.Split(string(blk), "\n")
		for i, l := range lines {
			if strings.HasPrefix(l, "verif/sim/sched.YieldInner") || strings.HasPrefix(l, libPrefix+"/vyield.") {
				continue // the instrumented build's hook, called from every loop iteration of the library
			}
			if strings.HasPrefix(l, "verif/sim/") || strings.HasPrefix(l, "main.") {
				return "", ""
			}
			if strings.HasPrefix(l, libPrefix) {
				return libFrame(strings.Join(lines[i:], "\n"))
			}
		}
		return "", ""
	}
	return "", ""
}

// libFrame returns the innermost library function in a stack text.
func libFrame(st string) (string, string) {
	lines := strings.Split(st, "\n")
	for i, l := range lines {
		if strings.HasPrefix(l, libPrefix) {
			fn := l
			if k := strings.LastIndex(fn, "("); k > 0 {
				fn = fn[:k]
			}
			where := ""
			if i+1 < len(lines) {
				where = strings.TrimSpace(lines[i+1])
				if k := strings.Index(where, " +0x"); k > 0 {
					where = where[:k]
				}
				where = shortFile(where)
			}
			return fn, where
		}
	}
	return "", ""
}

// NeverReturns tells whether a violation class is a verdict about an execution that does not come
// back (a lock nothing releases, a loop nothing ends): the process that established it is spoilt.
func NeverReturns(class string) bool {
	return strings.HasSuffix(class, "/deadlock") || strings.HasSuffix(class, "/hang")
}

func shortFn(fn string) string {
	if i := strings.LastIndex(fn, "/"); i >= 0 {
		return fn[i+1:]
	}
	return fn
}

// panicOrigin returns the innermost non-runtime function above gopanic.
func panicOrigin() (string, string) {
	pc := make([]uintptr, 64)
	n := runtime.Callers(2, pc)
	frames := runtime.CallersFrames(pc[:n])
	seenPanic := false
	for {
		fr, more := frames.Next()
		if !seenPanic {
			if fr.Function == "runtime.gopanic" {
				seenPanic = true
			}
		} else if !strings.HasPrefix(fr.Function, "runtime.") && fr.Function != "" {
			return fr.Function, fmt.Sprintf("%s:%d", shortFile(fr.File), fr.Line)
		}
		if !more {
			break
		}
	}
	return "", ""
}

func shortFile(f string) string {
	parts := strings.Split(f, "/")
	if len(parts) > 2 {
		parts = parts[len(parts)-2:]
	}
	return strings.Join(parts, "/")
}

// SortedKeys returns the keys of a counter map in order.
func SortedKeys(m map[string]int64) []string {
	k := make([]string, 0, len(m))
	for s := range m {
		k = append(k, s)
	}
	sort.Strings(k)
	return k
}
