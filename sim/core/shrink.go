package core

import "time"

// Oracle executes a tape and reports the violation (nil if none) together
// with the normalised tape the execution actually consumed.
type Oracle func(tape []uint32) (*Violation, []uint32)

// Shrink minimises a failing tape: a candidate is accepted iff it still fails
// with the same violation class. Bounded by maxExec executions and maxDur.
func Shrink(tape []uint32, class string, run Oracle, maxExec int, maxDur time.Duration) ([]uint32, int) {
	deadline := time.Now().Add(maxDur) // wall clock only bounds the search effort; the result is re-verified by replay
	execs := 0
	cur := append([]uint32(nil), tape...)
	try := func(c []uint32) bool {
		if execs >= maxExec || time.Now().After(deadline) {
			return false
		}
		execs++
		v, used := run(c)
		if v != nil && v.Class == class {
			// keep the normalised tape, trimmed of trailing zeros
			n := len(used)
			for n > 0 && used[n-1] == 0 {
				n--
			}
			cur = append(cur[:0:0], used[:n]...)
			return true
		}
		return false
	}
	// normalise first
	try(cur)
	for pass := 0; pass < 12; pass++ {
		improved := false
		// 1. delete spans
		for w := len(cur) / 2; w >= 1; w /= 2 {
			for i := 0; i+w <= len(cur); {
				c := make([]uint32, 0, len(cur)-w)
				c = append(c, cur[:i]...)
				c = append(c, cur[i+w:]...)
				if try(c) {
					improved = true
				} else {
					i += w
				}
				if execs >= maxExec || time.Now().After(deadline) {
					return cur, execs
				}
			}
		}
		// 2. zero spans
		for w := len(cur) / 2; w >= 1; w /= 2 {
			for i := 0; i+w <= len(cur); i += w {
				allZero := true
				for _, x := range cur[i : i+w] {
					if x != 0 {
						allZero = false
						break
					}
				}
				if allZero {
					continue
				}
				c := append([]uint32(nil), cur...)
				for j := i; j < i+w; j++ {
					c[j] = 0
				}
				if try(c) {
					improved = true
				}
				if execs >= maxExec || time.Now().After(deadline) {
					return cur, execs
				}
			}
		}
		// 3. lower single values (binary search towards 0)
		for i := 0; i < len(cur); i++ {
			if cur[i] == 0 {
				continue
			}
			lo, hi := uint32(0), cur[i] // invariant: hi fails
			for lo < hi {
				mid := lo + (hi-lo)/2
				if i >= len(cur) {
					break
				}
				c := append([]uint32(nil), cur...)
				c[i] = mid
				if try(c) {
					improved = true
					if i >= len(cur) {
						break
					}
					hi = cur[i]
					if hi > mid {
						hi = mid
					}
				} else {
					lo = mid + 1
				}
				if execs >= maxExec || time.Now().After(deadline) {
					return cur, execs
				}
			}
		}
		if !improved {
			break
		}
	}
	return cur, execs
}
