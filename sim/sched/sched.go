// Package sched interleaves caller tasks one at a time under a seeded
// schedule. Tasks are real goroutines, but only the holder of a baton runs.
// The baton and the task table are plain variables touched exclusively inside
// //go:norace functions and handed over by spinning on runtime.Gosched(), so
// the scheduler adds no happens-before edge between tasks: the race detector
// still sees every cross-task access pair as concurrent, although the tasks
// never overlap in time. Who runs next is drawn from the tape, so one tape is
// one exactly repeatable interleaving.
package sched

import (
	"bytes"
	"fmt"
	"runtime"
	"strconv"
	"sync"
	"time"

	"verif/sim/core"
)

const (
	stNew = iota
	stParked
	stRunning
	stBlocked // waiting on a lock of the code under test, owner is parked
	stDone
)

const schedID = -1

// shared, norace-only state
var (
	baton  int = schedID
	states []int
	sites  []int
	goids  []uint64
)

// Site names are interned so that tasks only exchange small ints.
var siteNames = []string{"start"}
var siteIdx = map[string]int{"start": 0}

// SiteID interns a site name. Must be called before tasks start (setup time).
func SiteID(name string) int {
	if i, ok := siteIdx[name]; ok {
		return i
	}
	siteIdx[name] = len(siteNames)
	siteNames = append(siteNames, name)
	return len(siteNames) - 1
}

// Common sites, interned at init so tasks never write the table.
var (
	SiteCall     = SiteID("call")
	SiteRead     = SiteID("Read")
	SiteReadRet  = SiteID("Read.ret")
	SiteSeek     = SiteID("Seek")
	SiteSeekRet  = SiteID("Seek.ret")
	SiteReadAt   = SiteID("ReadAt")
	SiteWrite    = SiteID("Write")
	SiteVisit    = SiteID("Visit")
	SiteOther    = SiteID("other")
	SiteInner    = SiteID("inner")
	SiteRelease  = SiteID("after-release")
	siteByString = map[string]int{"Read": SiteRead, "Read.ret": SiteReadRet, "Seek": SiteSeek, "Seek.ret": SiteSeekRet, "ReadAt": SiteReadAt, "Write": SiteWrite, "Visit": SiteVisit, "call": SiteCall}
)

// SiteOf maps a device's site string to an id without writing shared state.
func SiteOf(s string) int {
	if i, ok := siteByString[s]; ok {
		return i
	}
	return SiteOther
}

func curGoid() uint64 {
	var buf [64]byte
	n := runtime.Stack(buf[:], false)
	// "goroutine 123 ["
	b := buf[:n]
	b = b[len("goroutine "):]
	if i := bytes.IndexByte(b, ' '); i > 0 {
		b = b[:i]
	}
	id, _ := strconv.ParseUint(string(b), 10, 64)
	return id
}

//go:norace
func whoAmI(g uint64) int {
	for i, x := range goids {
		if x == g {
			return i
		}
	}
	return -2
}

//go:norace
func register(me int, g uint64) { goids[me] = g }

//go:norace
func getBaton() int { return baton }

//go:norace
func setBaton(x int) { baton = x }

//go:norace
func getState(i int) int { return states[i] }

//go:norace
func setState(i, s int) { states[i] = s }

//go:norace
func getSite(i int) int { return sites[i] }

//go:norace
func parkNR(me, site int) {
	states[me] = stParked
	sites[me] = site
	if baton == me {
		baton = schedID
	}
}

//go:norace
func doneNR(me int) {
	states[me] = stDone
	if baton == me {
		baton = schedID
	}
}

// Yield parks the calling task at the given site until the scheduler hands it
// the baton again. Called from task goroutines only; a call from any other
// goroutine (e.g. solo execution outside a scheduled run) is a no-op.
func Yield(site int) {
	if !active {
		return
	}
	me := whoAmI(curGoid())
	if me < 0 {
		return
	}
	parkNR(me, site)
	for getBaton() != me {
		runtime.Gosched()
	}
	setState(me, stRunning)
}

var active bool

// Inner yields: in the instrumented build every function entry and loop iteration of the
// library calls YieldInner. Parking at each of them would drown the run in scheduler steps,
// so each task parks only at every period-th call (periods are drawn from the tape per
// task). The caller is identified by the baton (only its holder runs), which costs nothing.
var (
	innerPeriod []int
	innerCount  []int
)

// SetInnerPeriods arms inner yields for the next Run (nil disables them).
func SetInnerPeriods(p []int) {
	innerPeriod = p
	innerCount = make([]int, len(p))
	copy(innerCount, p)
}

// mayRunFree counts tasks that were found waiting on a lock of the code under test and have
// not yet been seen parked again: such a task continues on its own once the lock is
// released, without holding the baton, so while there is one the cheap "caller == baton
// holder" identification is not safe and the caller is identified by its goroutine id.
var mayRunFree int

//go:norace
func freeRunners() int { return mayRunFree }

//go:norace
func addFreeRunner(d int) { mayRunFree += d }

//go:norace
func innerDue() int {
	me := baton
	if me < 0 || me >= len(innerPeriod) || innerPeriod[me] <= 0 {
		return -1
	}
	innerCount[me]--
	if innerCount[me] > 0 {
		return -1
	}
	innerCount[me] = innerPeriod[me]
	return me
}

// releasePark[i] says whether task i parks right after every synchronisation release of the
// library (Unlock, RUnlock, Pool.Put, atomic Store/Swap/CompareAndSwap) in this run.
var releasePark []bool

// SetReleaseParking arms those yield points for the next Run (nil disables them).
func SetReleaseParking(p []bool) { releasePark = p }

//go:norace
func releaseDue() int {
	me := baton
	if me < 0 || me >= len(releasePark) || !releasePark[me] {
		return -1
	}
	return me
}

// YieldAfterRelease is the second hook of the instrumented build. Sharing that is synchronised
// but not atomic - two critical sections with the lock given up in between - goes wrong only if
// another task gets in exactly there; so that is where a task parks, not at every n-th hook.
func YieldAfterRelease() {
	if !active {
		return
	}
	if freeRunners() > 0 && whoAmI(curGoid()) != getBaton() {
		return
	}
	me := releaseDue()
	if me < 0 {
		return
	}
	parkNR(me, SiteRelease)
	for getBaton() != me {
		runtime.Gosched()
	}
	setState(me, stRunning)
}

// YieldInner is the hook of the instrumented library build.
func YieldInner() {
	if !active {
		return
	}
	if freeRunners() > 0 && whoAmI(curGoid()) != getBaton() {
		return // a task released from a lock, running without the baton: no inner preemption
	}
	me := innerDue()
	if me < 0 {
		return
	}
	parkNR(me, SiteInner)
	for getBaton() != me {
		runtime.Gosched()
	}
	setState(me, stRunning)
}

// Result of a scheduled run.
type Result struct {
	Steps    int
	Schedule []int32 // task<<8 | site, in order
	Blocked  int     // times a task was found waiting on a lock of the code under test
	Deadlock bool
	Stuck    string // non-empty: watchdog (harness problem)
	Hang     string // non-empty: a task never comes back from a library call (where it spins)
	HangIn   string // the library function it spins in
	Sig      uint64
	Switches int
	TurnsPer []int
	Holds    int // times a task was held back after a release point
}

// Run executes the task bodies under a schedule drawn from the tape. Each
// body runs on its own goroutine. Run returns when all tasks are done.
func Run(t *core.Tape, bodies []func()) Result {
	n := len(bodies)
	prevProcs := runtime.GOMAXPROCS(1)
	defer runtime.GOMAXPROCS(prevProcs)
	states = make([]int, n)
	sites = make([]int, n)
	goids = make([]uint64, n)
	setBaton(schedID)
	mayRunFree = 0
	active = true
	var wg sync.WaitGroup
	res := Result{TurnsPer: make([]int, n), Sig: 0xcbf29ce484222325}
	defer func() {
		if res.Hang == "" { // (a task that never comes back is still running and reads the flag: leave it, the process is given up)
			active = false
		}
	}()
	for i := range bodies {
		i := i
		wg.Add(1)
		go func() {
			defer wg.Done()
			register(i, curGoid())
			parkNR(i, 0)
			for getBaton() != i {
				runtime.Gosched()
			}
			setState(i, stRunning)
			defer doneNR(i)
			bodies[i]()
		}()
	}
	// wait until every task has registered and parked at "start"
	spins := 0
	for {
		all := true
		for i := 0; i < n; i++ {
			if getState(i) != stParked {
				all = false
			}
		}
		if all {
			break
		}
		runtime.Gosched()
		if spins++; spins > 5_000_000 {
			res.Stuck = "tasks did not start"
			return res
		}
	}
	last := -1
	holdUntil := make([]int, n)
	phaseStart := core.CPUNow()
	for {
		// settle: every blocked task is either still waiting on the lock or has parked
		if !settle(n, &res) {
			return res
		}
		var runnable []int
		doneCnt, blockedCnt := 0, 0
		for i := 0; i < n; i++ {
			switch getState(i) {
			case stParked:
				runnable = append(runnable, i)
			case stDone:
				doneCnt++
			case stBlocked:
				blockedCnt++
			}
		}
		if doneCnt == n {
			break
		}
		if len(runnable) == 0 {
			if blockedCnt > 0 {
				res.Deadlock = true
				return res
			}
			res.Stuck = "no runnable task"
			return res
		}
		// A task that parked right after a release may be held back for a drawn number of steps
		// (a slow caller): the others then get far enough to do, inside the window it left open,
		// whatever they were about to do - one step is rarely enough for that.
		if len(runnable) > 1 {
			free := runnable[:0:0]
			for _, i := range runnable {
				if res.Steps >= holdUntil[i] {
					free = append(free, i)
				}
			}
			if len(free) > 0 {
				runnable = free
			}
		}
		pick := runnable[t.Draw(len(runnable))]
		res.Steps++
		core.Tick()
		if res.Steps&1023 == 0 && core.CPUNow()-phaseStart > 3*core.HangCPU() {
			// Tasks that are preempted inside library calls (instrumented build) keep reaching
			// yield points even in a loop that never ends; what gives such a run away is that the
			// phase does not end: the slowest legitimate one costs a few seconds of CPU time.
			if fn, where := core.SpinningIn(&stackBuf, goidOf(pick)); fn != "" {
				res.HangIn, res.Hang = fn, "the interleaved phase does not end ("+(core.CPUNow()-phaseStart).Round(time.Second).String()+" of CPU time, "+strconv.Itoa(res.Steps)+" scheduling steps); task "+strconv.Itoa(pick)+" is at "+where
			} else {
				res.Stuck = "the interleaved phase does not end and the task picked last is not inside the library"
			}
			return res
		}
		res.TurnsPer[pick]++
		if pick != last {
			res.Switches++
			last = pick
		}
		ev := int32(pick)<<8 | int32(getSite(pick))
		if len(res.Schedule) < 4096 {
			res.Schedule = append(res.Schedule, ev)
		}
		res.Sig = (res.Sig ^ uint64(ev)) * 0x100000001b3
		setState(pick, stRunning)
		setBaton(pick)
		// wait for the task to park, finish or block
		spins = 0
		turnStart := time.Duration(-1)
		for getBaton() != schedID {
			runtime.Gosched()
			spins++
			if spins%64 == 0 {
				// A task that keeps the baton for HangCPU of CPU time (the slowest legitimate
				// stretch between two yield points costs milliseconds) is not coming back.
				if now := core.CPUNow(); turnStart < 0 {
					turnStart = now
				} else if now-turnStart > core.HangCPU() {
					if fn, where := core.SpinningIn(&stackBuf, goidOf(pick)); fn != "" {
						res.HangIn, res.Hang = fn, "task "+strconv.Itoa(pick)+" never comes back from a library call ("+(now-turnStart).Round(time.Second).String()+" of CPU time without reaching a yield point), at "+where
						return res
					}
					turnStart = now // harness code: left to the spin bound below
				}
				if isMutexBlocked(goidOf(pick)) {
					// stable: the owner of the lock is parked and cannot release it before we decide
					setState(pick, stBlocked)
					addFreeRunner(1)
					setBaton(schedID)
					res.Blocked++
					break
				}
			}
			if spins > 20_000_000 {
				res.Stuck = fmt.Sprintf("task %d holds the baton and makes no progress (site %s)", pick, siteNames[getSite(pick)])
				return res
			}
		}
		if getState(pick) == stParked && getSite(pick) == SiteRelease && t.Chance(1, 2) {
			holdUntil[pick] = res.Steps + 1<<uint(t.Draw(9)) // 1 .. 256 steps
			res.Holds++
		}
	}
	wg.Wait()
	return res
}

//go:norace
func goidOf(i int) uint64 { return goids[i] }

// settle polls until every task marked blocked is in a stable state: parked
// (it obtained the lock and reached its next seam) or still waiting on the mutex.
func settle(n int, res *Result) bool {
	for i := 0; i < n; i++ {
		if getState(i) != stBlocked {
			continue
		}
		spins := 0
		for {
			s := getState(i)
			if s == stParked || s == stDone {
				addFreeRunner(-1)
				break
			}
			// let woken goroutines run
			for k := 0; k < 8; k++ {
				runtime.Gosched()
			}
			s = getState(i)
			if s == stParked || s == stDone {
				addFreeRunner(-1)
				break
			}
			if isMutexBlocked(goidOf(i)) {
				break
			}
			if spins++; spins > 1_000_000 {
				res.Stuck = fmt.Sprintf("blocked task %d neither parks nor waits", i)
				return false
			}
		}
	}
	return true
}

var stackBuf = make([]byte, 1<<16)

// isMutexBlocked reports whether goroutine g is waiting in sync.Mutex.Lock
// (or RWMutex) according to the runtime.
func isMutexBlocked(g uint64) bool {
	for {
		n := runtime.Stack(stackBuf, true)
		if n < len(stackBuf) {
			return hasBlockedHeader(stackBuf[:n], g)
		}
		stackBuf = make([]byte, 2*len(stackBuf))
	}
}

func hasBlockedHeader(all []byte, g uint64) bool {
	needle := []byte("goroutine " + strconv.FormatUint(g, 10) + " [")
	i := bytes.Index(all, needle)
	for i >= 0 {
		if i == 0 || all[i-1] == '\n' {
			rest := all[i+len(needle):]
			end := bytes.IndexByte(rest, ']')
			if end < 0 {
				return false
			}
			st := rest[:end]
			return bytes.HasPrefix(st, []byte("sync.Mutex.Lock")) || bytes.HasPrefix(st, []byte("sync.RWMutex.")) || bytes.HasPrefix(st, []byte("semacquire"))
		}
		j := bytes.Index(all[i+1:], needle)
		if j < 0 {
			return false
		}
		i += 1 + j
	}
	return false
}

// SiteName returns the name of a site id.
func SiteName(i int) string {
	if i >= 0 && i < len(siteNames) {
		return siteNames[i]
	}
	return "?"
}
