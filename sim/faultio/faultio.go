// Package faultio provides the simulator-owned byte sources: an io.Reader, an
// io.ReadSeeker and an io.ReaderAt whose chunking, zero-length reads, EOF
// style and failure point are drawn from the run's tape, plus a writer with
// yield points. Every fault counter is incremented when the fault fires.
package faultio

import (
	"errors"
	"fmt"
	"io"
	"unicode/utf8"

	"verif/sim/core"
)

// ErrInjected is the sentinel failure.
var ErrInjected = errors.New("simulated I/O failure")

// ErrWrappedEOF is a failure whose chain contains io.EOF.
var ErrWrappedEOF = fmt.Errorf("simulated failure: %w", io.EOF)

// Chunk modes.
const (
	ChunkFull   = iota // as much as fits
	ChunkFixed         // fixed size
	ChunkSmall         // 1..4 per call, drawn
	ChunkAny           // 1..len(p) per call, drawn
	ChunkRuneM1        // up to one byte before the end of the next multi-byte rune
	nChunkModes
)

// EOF styles.
const (
	EOFAfter     = iota // (k,nil) then (0,EOF)
	EOFWithData         // (k,EOF) with the last bytes
	EOFAfterZero        // (k,nil), (0,nil), (0,EOF)
	nEOFStyles
)

// Plan is the per-reader configuration, drawn once.
type Plan struct {
	Chunk     int
	Fixed     int
	EOFStyle  int
	ZeroReads bool
	Scribble  bool // the reader uses all of p as scratch space: bytes beyond the returned n are garbage (legal per io.Reader)
	FailAt    int  // -1: none; else byte offset at which Err is injected
	FailWith  bool // error delivered together with the bytes before FailAt
	Err       error
	// AfterErr says what the source does once it has reported the failure: 0 = the same error on
	// every later call; 1 = io.EOF on every later call; 2 = it carries on with the data behind the
	// failure point (a transient condition, e.g. a deadline that passed). io.Reader promises none
	// of the three; a consumer that stops at the first error - as io.ReadAll does - sees no difference.
	AfterErr int
}

// DrawPlan draws a reader plan for data of length n. faults selects whether a
// failure may be injected at all.
func DrawPlan(t *core.Tape, n int, faults bool) Plan {
	p := Plan{FailAt: -1}
	p.Chunk = t.Draw(nChunkModes)
	p.Fixed = t.Pick(1, 2, 3, 4, 5, 7, 8, 16, 61, 1024)
	p.EOFStyle = t.Draw(nEOFStyles)
	p.ZeroReads = t.Chance(1, 4)
	p.Scribble = t.Chance(1, 4)
	if faults && t.Chance(1, 3) {
		// bias the failure point to the ends and to small offsets
		switch t.Draw(4) {
		case 0:
			p.FailAt = t.Range(0, n)
		case 1:
			p.FailAt = n
		case 2:
			p.FailAt = 0
		default:
			m := n
			if m > 12 {
				m = 12
			}
			p.FailAt = t.Range(0, m)
		}
		p.FailWith = t.Chance(1, 2)
		p.Err = ErrInjected
		switch t.Draw(8) {
		case 1:
			p.Err = io.ErrUnexpectedEOF
		case 2:
			p.Err = ErrWrappedEOF // wraps io.EOF: still a failure, only the sentinel itself means end of data
		}
		p.AfterErr = t.Pick(0, 0, 1, 2)
	}
	return p
}

// Reader is the simulated io.Reader.
type Reader struct {
	Ctx   *core.Ctx
	Data  []byte
	P     Plan
	Off   int
	Yield func(site string) // scheduler seam (may be nil)

	cur         []byte // the buffer of the Read call in progress
	dev         *core.Tape
	sticky      error
	afterSticky int
	resumed     bool // the failure was transient and has been reported (Plan.AfterErr == 2)
	zeros       int
	emptyCalls  int
	pendingEOF  int // for EOFAfterZero: 1 = a (0,nil) is still due
	Reads       int
	// ErrReturned is the error (incl. io.EOF) the reader has handed out, if any.
	ErrReturned error
}

// NewReader creates the simulated reader. Its per-call decisions (chunk sizes, zero-length
// reads) come from a private sub-stream seeded by ONE draw of the run's tape, so that the
// number of Read calls the library makes cannot shift the caller's operation sequence.
func NewReader(ctx *core.Ctx, data []byte, p Plan) *Reader {
	return &Reader{Ctx: ctx, Data: data, P: p, dev: ctx.T.Sub()}
}

// Visible is the prefix of the data a consumer can ever obtain.
func (r *Reader) Visible() []byte {
	if r.P.FailAt >= 0 && r.P.FailAt < len(r.Data) {
		return r.Data[:r.P.FailAt]
	}
	return r.Data
}

func (r *Reader) limit() int {
	if r.resumed {
		return len(r.Data)
	}
	return len(r.Visible())
}

func (r *Reader) fin(n int, err error) (int, error) {
	r.Reads++
	if r.P.Scribble && r.cur != nil && n < len(r.cur) {
		// "Even if Read returns n < len(p), it may use all of p as scratch space during the call."
		rest := r.cur[n:]
		if len(rest) > 64 {
			rest = rest[:64]
		}
		for i := range rest {
			rest[i] = 0xA5 ^ byte(i)
		}
		r.Ctx.Count("fault_scratch_space_scribbled")
	}
	r.cur = nil
	e := int64(0)
	if err == io.EOF {
		e = 1
	} else if err != nil {
		e = 2
	}
	r.Ctx.L.EvDev("read", int64(n), e)
	if err != nil {
		if r.ErrReturned == nil {
			r.ErrReturned = err
		}
		r.sticky = err
		if r.P.FailAt >= 0 && !r.resumed && err != io.EOF {
			switch r.P.AfterErr {
			case 1:
				r.sticky = io.EOF
				r.Ctx.Count("fault_error_reported_once_then_eof")
			case 2:
				r.sticky, r.resumed = nil, true
				r.Ctx.Count("fault_error_transient_source_carries_on")
			}
		}
	}
	return n, err
}

func (r *Reader) endErr() error {
	if r.P.FailAt >= 0 && !r.resumed {
		return r.P.Err
	}
	return io.EOF
}

func (r *Reader) Read(p []byte) (int, error) {
	r.cur = p
	if r.Yield != nil {
		r.Yield("Read")
	}
	if r.sticky != nil {
		if r.afterSticky++; r.afterSticky > 20000 {
			panic(core.Abort{V: &core.Violation{Class: r.Ctx.Prop + "/livelock-after-error", Msg: fmt.Sprintf("Read called more than 20000 times after the reader had returned %v", r.sticky)}})
		}
		if r.sticky == io.EOF {
			r.Ctx.Count("reads_after_eof")
		} else {
			r.Ctx.Count("reads_after_error")
		}
		return r.fin(0, r.sticky)
	}
	if len(p) == 0 {
		r.emptyCalls++
		r.Ctx.Count("read_empty_p")
		if r.emptyCalls > 1000 {
			panic(core.Abort{V: &core.Violation{Class: r.Ctx.Prop + "/livelock-empty-read", Msg: "Read called with an empty buffer more than 1000 times in a row"}})
		}
		return r.fin(0, nil)
	}
	r.emptyCalls = 0
	lim := r.limit()
	rem := lim - r.Off
	if rem == 0 {
		if r.pendingEOF == 1 {
			r.pendingEOF = 2
			r.Ctx.Count("fault_zero_before_eof")
			return r.fin(0, nil)
		}
		if r.P.FailAt >= 0 {
			r.Ctx.Count("fault_error_without_data")
		} else {
			r.Ctx.Count("eof_without_data")
		}
		return r.fin(0, r.endErr())
	}
	if r.P.ZeroReads && r.zeros < 3 && r.dev.Chance(1, 8) {
		r.zeros++
		r.Ctx.Count("fault_zero_read")
		return r.fin(0, nil)
	}
	r.zeros = 0
	k := len(p)
	switch r.P.Chunk {
	case ChunkFixed:
		k = r.P.Fixed
	case ChunkSmall:
		k = 1 + r.dev.Draw(4)
	case ChunkAny:
		k = 1 + r.dev.Draw(96)
	case ChunkRuneM1:
		k = runeMinusOne(r.Data[r.Off:lim])
	}
	if k > len(p) {
		k = len(p)
	}
	if k > rem {
		k = rem
	}
	if k < len(p) && k < rem {
		r.Ctx.Count("fault_short_read")
	}
	copy(p, r.Data[r.Off:r.Off+k])
	r.Off += k
	if r.Off == lim {
		// last bytes: decide how the end is announced
		if r.P.FailAt >= 0 && !r.resumed {
			if r.P.FailWith {
				r.Ctx.Count("fault_error_with_data")
				return r.fin(k, r.P.Err)
			}
			return r.fin(k, nil)
		}
		switch r.P.EOFStyle {
		case EOFWithData:
			r.Ctx.Count("eof_with_data")
			return r.fin(k, io.EOF)
		case EOFAfterZero:
			r.pendingEOF = 1
		}
	}
	return r.fin(k, nil)
}

// runeMinusOne returns the number of bytes up to one byte before the end of
// the first multi-byte rune in b (so that the rune straddles two reads), or a
// small count when there is none nearby.
func runeMinusOne(b []byte) int {
	for i := 0; i < len(b) && i < 64; {
		_, n := utf8.DecodeRune(b[i:])
		if n > 1 {
			return i + n - 1
		}
		i += n
	}
	if len(b) < 3 {
		return len(b)
	}
	return 3
}

// BytesReader is a reader that additionally exposes Bytes(), which the
// library's constructors use as a shortcut.
type BytesReader struct {
	*Reader
}

func (b BytesReader) Bytes() []byte { return b.Reader.Data }

// ---------------------------------------------------------------- seeker

// ReadSeeker is a simulated io.ReadSeeker over immutable data. Its cursor is
// shared state: two callers interleaving Seek and Read without mutual
// exclusion observe each other's positions, exactly like a real file handle.
type ReadSeeker struct {
	Ctx      *core.Ctx
	Data     []byte
	P        Plan
	Pos      int64
	Yield    func(site string)
	Dev      *core.Tape // private sub-stream for per-call chunk sizes (nil: no per-call draws)
	Quiet    bool       // scheduled runs: several tasks call in; touch no shared harness state, draw nothing
	failed   bool
	Inside   int // number of callers currently between entry and exit of Seek/Read (overlap probe)
	Overlaps int
}

func (s *ReadSeeker) enter(site string) {
	s.Inside++
	if s.Inside > 1 {
		s.Overlaps++
	}
	if s.Yield != nil {
		s.Yield(site)
	}
}
func (s *ReadSeeker) leave() { s.Inside-- }

func (s *ReadSeeker) Seek(off int64, whence int) (int64, error) {
	s.enter("Seek")
	defer s.leave()
	var abs int64
	switch whence {
	case io.SeekStart:
		abs = off
	case io.SeekCurrent:
		abs = s.Pos + off
	case io.SeekEnd:
		abs = int64(len(s.Data)) + off
	default:
		return 0, errors.New("simseeker: invalid whence")
	}
	if abs < 0 {
		return 0, errors.New("simseeker: negative position")
	}
	s.Pos = abs
	if !s.Quiet {
		s.Ctx.L.EvDev("seek", abs)
		s.Ctx.DevCall(0)
	}
	if s.Yield != nil {
		s.Yield("Seek.ret")
	}
	return abs, nil
}

func (s *ReadSeeker) Read(p []byte) (int, error) {
	s.enter("Read")
	defer s.leave()
	c := s.Ctx
	if s.Quiet {
		c = nil
	}
	return readAtCommon(c, s.Dev, s.Data, &s.P, &s.failed, p, &s.Pos, false, s.Yield)
}

// readAtCommon serves a read at *pos and advances it.
func readAtCommon(ctx *core.Ctx, dev *core.Tape, data []byte, pl *Plan, failed *bool, p []byte, pos *int64, readerAt bool, yield func(string)) (int, error) {
	if len(p) == 0 {
		evq(ctx, "sread", 0, 0)
		return 0, nil
	}
	lim := int64(len(data))
	fail := int64(-1)
	if pl.FailAt >= 0 {
		fail = int64(pl.FailAt)
		if fail < lim {
			lim = fail
		}
	}
	if *pos >= lim {
		if fail >= 0 && *pos >= fail {
			cntq(ctx, "fault_error_without_data")
			evq(ctx, "sread", 0, 2)
			return 0, pl.Err
		}
		evq(ctx, "sread", 0, 1)
		return 0, io.EOF
	}
	rem := int(lim - *pos)
	k := len(p)
	if !readerAt {
		switch pl.Chunk {
		case ChunkFixed:
			k = pl.Fixed
		case ChunkSmall:
			if dev != nil {
				k = 1 + dev.Draw(4)
			}
		case ChunkAny:
			if dev != nil {
				k = 1 + dev.Draw(96)
			}
		case ChunkRuneM1:
			if dev != nil {
				k = 1 + dev.Draw(2)
			}
		}
	}
	if k > len(p) {
		k = len(p)
	}
	if k > rem {
		k = rem
	}
	if k < len(p) && k < rem {
		cntq(ctx, "fault_short_read")
	}
	copy(p, data[*pos:*pos+int64(k)])
	*pos += int64(k)
	var err error
	if *pos == lim {
		if fail >= 0 && fail == lim {
			if pl.FailWith || (readerAt && k < len(p)) {
				cntq(ctx, "fault_error_with_data")
				err = pl.Err
			}
		} else if readerAt {
			if k < len(p) {
				err = io.EOF // io.ReaderAt: n < len(p) must come with an error
			} else if pl.EOFStyle == EOFWithData {
				cntq(ctx, "eof_with_exact_fit")
				err = io.EOF
			}
		} else if pl.EOFStyle == EOFWithData {
			cntq(ctx, "eof_with_data")
			err = io.EOF
		}
	}
	e := int64(0)
	if err == io.EOF {
		e = 1
	} else if err != nil {
		e = 2
	}
	evq(ctx, "sread", int64(k), e)
	if yield != nil {
		yield("Read.ret")
	}
	return k, err
}

func evq(ctx *core.Ctx, kind string, a ...int64) {
	if ctx != nil {
		ctx.L.EvDev(kind, a...)
		if kind == "sread" {
			ctx.DevCall(int(a[0]))
		}
	}
}

func cntq(ctx *core.Ctx, k string) {
	if ctx != nil {
		ctx.Count(k)
	}
}

// ---------------------------------------------------------------- readerAt

// ReaderAt is a simulated io.ReaderAt (and io.Reader, since the library's
// constructor takes an io.Reader). ReadAt is stateless, as the interface demands.
type ReaderAt struct {
	Ctx    *core.Ctx
	Data   []byte
	P      Plan
	Yield  func(site string)
	Dev    *core.Tape
	Quiet  bool
	seqPos int64
	failed bool
}

func (a *ReaderAt) ctx() *core.Ctx {
	if a.Quiet {
		return nil
	}
	return a.Ctx
}

func (a *ReaderAt) Read(p []byte) (int, error) {
	return readAtCommon(a.ctx(), a.Dev, a.Data, &a.P, &a.failed, p, &a.seqPos, false, a.Yield)
}

func (a *ReaderAt) ReadAt(p []byte, off int64) (int, error) {
	if a.Yield != nil {
		a.Yield("ReadAt")
	}
	if off < 0 {
		return 0, errors.New("simreaderat: negative offset")
	}
	pos := off
	return readAtCommon(a.ctx(), a.Dev, a.Data, &a.P, &a.failed, p, &pos, true, a.Yield)
}

// ---------------------------------------------------------------- writer

// Writer collects output and yields to the scheduler on every Write.
type Writer struct {
	Buf   []byte
	Yield func(site string)
}

func (w *Writer) Write(p []byte) (int, error) {
	if w.Yield != nil {
		w.Yield("Write")
	}
	w.Buf = append(w.Buf, p...)
	return len(p), nil
}
