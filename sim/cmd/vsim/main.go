// vsim: driver, worker, replayer of the deterministic simulation checks.
//
//	vsim check  -prop C13 -tier quick|thorough     orchestrate workers, write evidence, exit 0/1/2
//	vsim worker -prop C13 -seed S -w i -W n -n N   run indices i, i+n, ... < N (JSON result on -out)
//	vsim replay -file replays/....json             re-execute a recorded tape
//	vsim digest -prop C13 -seed S -n N             batch digest only (determinism self-test)
package main

import (
	"bytes"
	"encoding/json"
	"flag"
	"fmt"
	"os"
	"os/exec"
	"path/filepath"
	"regexp"
	"runtime"
	"runtime/debug"
	"sort"
	"strconv"
	"strings"
	"time"

	"verif/sim/core"
	"verif/sim/props"
)

const defaultSeed = 20260925

func verifDir() string {
	if d := os.Getenv("VERIF_DIR"); d != "" {
		return d
	}
	return "/verif"
}

func buildName() string {
	if props.InnerYields {
		return "inner"
	}
	return ""
}

// binFor returns the binary that must execute a replay file.
func binFor(build string) string {
	if build == "inner" && !props.InnerYields {
		return os.Args[0] + ".inner"
	}
	return os.Args[0]
}

func replayDir() string {
	if d := os.Getenv("VERIF_REPLAY_DIR"); d != "" {
		return d
	}
	return filepath.Join(verifDir(), "replays")
}

func envSeed() uint64 {
	if s := os.Getenv("VERIF_SEED"); s != "" {
		if v, err := strconv.ParseInt(s, 10, 64); err == nil {
			return uint64(v)
		}
		fmt.Fprintf(os.Stderr, "vsim: VERIF_SEED=%q is not an integer\n", s)
		os.Exit(2)
	}
	return defaultSeed
}

// ---------------------------------------------------------------- per-property settings

type propCfg struct {
	quickRuns, thoroughRuns     int
	quickBudget, thoroughBudget time.Duration // wall caps per worker (a cap hit is reported, not hidden)
	raceShare                   int           // every k-th worker runs the race build (0 = none)
	freshEvery                  int           // plain workers re-execute every k-th run's tape in a fresh process (0 = never)
	innerShare                  int           // every k-th worker (if not a race worker) runs the build with yields inside library calls (0 = none)
	singleProc                  bool          // scheduler-based: GOMAXPROCS=1 per worker
	requiredProbes              []string
	rule                        string
	realStub                    map[string][]string
	assumptions                 []string
}

var cfgs = map[string]*propCfg{}

// ---------------------------------------------------------------- known findings

type finding struct {
	Property string `json:"property"`
	Status   string `json:"status"` // known | fixed
	Class    string `json:"class"`
	Facts    string `json:"facts_regex,omitempty"`
	What     string `json:"what"`
	Commit   string `json:"commit,omitempty"`
	re       *regexp.Regexp
}

func loadFindings() []finding {
	b, err := os.ReadFile(filepath.Join(verifDir(), "known_findings.json"))
	if err != nil {
		return nil
	}
	var f struct {
		Findings []finding `json:"findings"`
	}
	if err := json.Unmarshal(b, &f); err != nil {
		fmt.Fprintf(os.Stderr, "vsim: known_findings.json: %v\n", err)
		os.Exit(2)
	}
	for i := range f.Findings {
		if f.Findings[i].Facts != "" {
			f.Findings[i].re = regexp.MustCompile(f.Findings[i].Facts)
		}
	}
	return f.Findings
}

func matchKnown(fs []finding, prop string, v *core.Violation) *finding {
	for i := range fs {
		f := &fs[i]
		if f.Status != "known" || f.Property != prop || f.Class != v.Class {
			continue
		}
		if f.re != nil && !f.re.MatchString(v.Facts) {
			continue
		}
		return f
	}
	return nil
}

// ---------------------------------------------------------------- worker

type violationRec struct {
	Run    int    `json:"run"`
	Class  string `json:"class"`
	Facts  string `json:"facts"`
	Msg    string `json:"msg"`
	Replay string `json:"replay"`
	Shrunk int    `json:"tape_len"`
	Execs  int    `json:"shrink_execs"`
}

type workerOut struct {
	Runs       int              `json:"runs"`
	Events     int64            `json:"events"`
	Counters   map[string]int64 `json:"counters"`
	Sigs       []uint64         `json:"sigs"`
	SigsCapped bool             `json:"sigs_capped"`
	NonTrivial int              `json:"nontrivial"`
	Samples    []interface{}    `json:"samples"`
	Violations []violationRec   `json:"violations"`
	Known      map[string]int   `json:"known"`
	Harness    string           `json:"harness,omitempty"`
	Digest     uint64           `json:"digest"`
	BudgetHit  bool             `json:"budget_hit"`
	SelfChecks int              `json:"self_checks"`
}

type replayFile struct {
	Property string   `json:"property"`
	Seed     uint64   `json:"seed"`
	Run      int      `json:"run"`
	Tier     string   `json:"tier"`
	Class    string   `json:"class"`
	Facts    string   `json:"facts"`
	Msg      string   `json:"msg"`
	Event    int      `json:"first_bad_event"`
	Digest   string   `json:"digest"`
	Tape     []uint32 `json:"tape"`
	Desc     []string `json:"description"`
	Trace    []string `json:"trace"`
	OrigTape int      `json:"original_tape_len"`
	// Build: "inner" when the run was executed by the binary built against the instrumented
	// copy of the library (yields inside library calls); replay needs the same build.
	Build string `json:"build,omitempty"`
	// FreshOnly: the verdict was obtained in a fresh process (one process per execution).
	FreshOnly bool `json:"fresh_process_verdict,omitempty"`
	// History: runs (indices under Seed) that must be executed in the same process before the
	// tape for the violation to appear: the result depends on what was parsed before.
	History []int `json:"history_runs,omitempty"`
}

func execTape(prop string, tape []uint32, trace bool, env map[string]string) core.Result {
	f := props.Registry[prop]
	return core.Exec(prop, core.ReplayTape(tape), trace, func(c *core.Ctx) *core.Violation {
		c.Env = env
		return f(c)
	})
}

func runWorker(args []string) int {
	fs := flag.NewFlagSet("worker", flag.ExitOnError)
	prop := fs.String("prop", "", "")
	seed := fs.Uint64("seed", defaultSeed, "")
	w := fs.Int("w", 0, "")
	W := fs.Int("W", 1, "")
	n := fs.Int("n", 100, "")
	tier := fs.String("tier", "quick", "")
	out := fs.String("out", "", "")
	budget := fs.Duration("budget", time.Hour, "")
	digestOnly := fs.Bool("digest-only", false, "")
	freshEvery := fs.Int("fresh-every", 0, "")
	kSlots := fs.Int("k", 1, "") // this worker owns the run indices r with w <= r mod W < w+k
	fs.Parse(args)
	f := props.Registry[*prop]
	if f == nil {
		fmt.Fprintf(os.Stderr, "vsim: no such property %q\n", *prop)
		return 2
	}
	env := map[string]string{"tier": *tier, "self": os.Args[0], "race": strconv.FormatBool(raceEnabled)}
	known := loadFindings()
	res := workerOut{Counters: map[string]int64{}, Known: map[string]int{}}
	sigs := map[uint64]struct{}{}
	const sigCap = 400000
	start := time.Now()
	code := 0
	iter := 0
	for r := 0; r < *n; r++ {
		if s := r % *W; s < *w || s >= *w+*kSlots {
			continue
		}
		if iter++; iter&63 == 0 && time.Since(start) > *budget {
			res.BudgetHit = true
			break
		}
		if raceEnabled {
			fmt.Fprintf(os.Stderr, "RUN %d\n", r)
		}
		tp := core.NewTape(core.RunSeed(*seed, *prop, r))
		rr := core.Exec(*prop, tp, false, func(c *core.Ctx) *core.Violation { c.Env = env; return f(c) })
		if rr.V != nil && (raceEnabled && core.NeverReturns(rr.V.Class) || strings.HasSuffix(rr.V.Class, "/hang")) {
			// (a spinning goroutine, moreover, keeps eating this process's CPU: leave at once)
			// The blocked goroutine never synchronises with this one again, so reading what it
			// wrote (counters, tape) would itself be reported by the detector. Hand the run to the
			// orchestrator, which re-establishes the verdict with the plain binary.
			fmt.Fprintf(os.Stderr, "DEADLOCK-IN-RUN %d\n", r)
			os.Exit(67)
		}
		res.Runs++
		res.Events += int64(rr.Ctx.L.Seq)
		res.Digest ^= core.Mix(rr.Ctx.L.Digest, uint64(r)) // order- and partition-independent
		mergeCounters(res.Counters, rr.Ctx.C)
		if rr.Harness != nil {
			res.Harness = fmt.Sprintf("run %d: harness panic: %v\n%s", r, rr.Harness.Val, rr.Harness.Stack)
			code = 2
			break
		}
		if rr.Ctx.NonT {
			res.NonTrivial++
			if len(sigs) < sigCap {
				sigs[rr.Ctx.Sig] = struct{}{}
			} else {
				res.SigsCapped = true
			}
		}
		if *digestOnly {
			continue
		}
		// continuous determinism self-check + samples: re-execute from the recorded tape
		if r%97 == 0 || (r < 3*(*kSlots) && *w == 0) {
			again := execTape(*prop, tp.Rec, r < 3*(*kSlots) && *w == 0, env)
			res.SelfChecks++
			if again.Ctx.L.OpDigest != rr.Ctx.L.OpDigest || (again.V == nil) != (rr.V == nil) {
				res.Harness = fmt.Sprintf("run %d: re-execution from its own tape diverged (operation digest %x vs %x): either the harness is not deterministic or the library carries state from one execution to the next (e.g. pooled buffers whose size the simulated reader can see)", r, rr.Ctx.L.OpDigest, again.Ctx.L.OpDigest)
				code = 2
				break
			}
			if again.Ctx.L.Trace && len(res.Samples) < 3 {
				lines := again.Ctx.L.Lines
				if len(lines) > 40 {
					lines = append(append([]string{}, lines[:40]...), fmt.Sprintf("... %d more events", len(lines)-40))
				}
				res.Samples = append(res.Samples, map[string]interface{}{"run": r, "config": again.Ctx.Desc, "events": lines, "nontrivial": rr.Ctx.NonT})
			}
		}
		// fresh-process re-execution of whole runs: state that only matters early in a process's
		// life (a slab handed out once, a table filled by the first caller) or that earlier runs
		// of this worker left behind is invisible in-process; the same tape in a new process
		// must give the same events and the same verdict
		// (focused runs - all tasks on one entry-point family - are sampled three times as often:
		// they are where a once-per-process write is most likely to meet a concurrent reader)
		raceFreshRate := uint64(3 * *freshEvery)
		if rr.Ctx.C["probe_focused_runs"] > 0 {
			raceFreshRate = uint64(*freshEvery)
		}
		if rr.V == nil && raceEnabled && *freshEvery > 0 && core.Mix(0xf5e5, uint64(r))%raceFreshRate == 0 {
			// the same, under the race detector: a write that happens once per process (a table
			// filled or a default adjusted by the first caller) races only in a young process
			code, out, _ := execTapeProc(os.Args[0], *prop, *tier, tp.Rec, true)
			res.Counters["probe_whole_run_in_fresh_race_process"]++
			if code == 66 {
				if _, lib := raceSummary(out); lib {
					// hand the report to the orchestrator exactly like a race in this process
					fmt.Fprintf(os.Stderr, "RUN %d\n%s\n", r, out)
					os.Exit(66)
				}
			}
		}
		// (focused runs four times as often: what a library does once per process - fill a table,
		// publish an entry - is contended only if several tasks want the same thing first)
		plainFreshRate := uint64(*freshEvery)
		if rr.Ctx.C["probe_focused_runs"] > 0 && plainFreshRate >= 4 {
			plainFreshRate /= 4
		}
		if rr.V == nil && !raceEnabled && *freshEvery > 0 && core.Mix(0xf5e5, uint64(r))%plainFreshRate == 0 {
			code, out, _ := execTapeProc(os.Args[0], *prop, *tier, tp.Rec, true)
			res.Counters["probe_whole_run_in_fresh_process"]++
			switch {
			case code == 1:
				// violation only in the fresh process: shrink with one process per candidate
				class := classOf(out)
				oracle := func(tape []uint32) (*core.Violation, []uint32) {
					c, o, used := execTapeProc(os.Args[0], *prop, *tier, tape, true)
					if c == 1 && classOf(o) == class {
						if used == nil {
							used = tape
						}
						return &core.Violation{Class: class}, used
					}
					return nil, nil
				}
				small, execs := core.Shrink(tp.Rec, class, oracle, 150, 40*time.Second)
				// the minimised tape has to fail again, on its own, twice in a row; otherwise the
				// original tape is what gets reported (the orchestrator re-establishes it once more)
				for k := 0; k < 2; k++ {
					if v, _ := oracle(small); v == nil {
						small = tp.Rec
						break
					}
				}
				fin := execTape(*prop, small, true, env) // description only; the verdict is the child's
				rf := replayFile{Property: *prop, Seed: *seed, Run: r, Tier: *tier, Class: class, Facts: "fresh-process", Msg: msgOf(out), Event: 0,
					Digest: "fresh", Tape: small, Desc: fin.Ctx.Desc, Trace: tail(fin.Ctx.L.Lines, 200), OrigTape: len(tp.Rec), FreshOnly: true, Build: buildName()}
				path := filepath.Join(replayDir(), fmt.Sprintf("%s-%d-%d-fresh.json", *prop, *seed, r))
				os.MkdirAll(filepath.Dir(path), 0o755)
				b, _ := json.MarshalIndent(rf, "", " ")
				os.WriteFile(path, b, 0o644)
				res.Violations = append(res.Violations, violationRec{Run: r, Class: class, Facts: rf.Facts, Msg: rf.Msg, Replay: path, Shrunk: len(small), Execs: execs})
			case code == 0:
				if d := opDigestOf(out); d != "" && d != fmt.Sprintf("%016x", rr.Ctx.L.OpDigest) {
					// same tape, other results than in a fresh process: something executed earlier in
					// this worker matters. The replay file carries the worker's earlier run indices.
					var hist []int
					for i := 0; i < r; i++ {
						if sl := i % *W; sl >= *w && sl < *w+*kSlots {
							hist = append(hist, i)
						}
					}
					msg := fmt.Sprintf("run %d produces operation digest %s in a fresh process but %016x after the %d earlier runs of this worker: a result depends on what was executed before in the process", r, d, rr.Ctx.L.OpDigest, len(hist))
					rf := replayFile{Property: *prop, Seed: *seed, Run: r, Tier: *tier, Class: *prop + "/run-differs-in-fresh-process", Facts: "fresh-process", Msg: msg,
						Digest: d, Tape: tp.Rec, OrigTape: len(tp.Rec), History: hist, Build: buildName()}
					path := filepath.Join(replayDir(), fmt.Sprintf("%s-%d-%d-differs.json", *prop, *seed, r))
					os.MkdirAll(filepath.Dir(path), 0o755)
					b, _ := json.MarshalIndent(rf, "", " ")
					os.WriteFile(path, b, 0o644)
					res.Violations = append(res.Violations, violationRec{Run: r, Class: rf.Class, Facts: rf.Facts, Msg: msg, Replay: path, Shrunk: len(tp.Rec)})
				}
			default:
				res.Harness = fmt.Sprintf("run %d: fresh-process execution failed (exit %d):\n%s", r, code, lastLines(out, 20))
				code = 2
			}
			if len(res.Violations) > 0 || res.Harness != "" {
				if res.Harness != "" {
					code = 2
				}
				break
			}
		}
		if rr.V != nil {
			if kf := matchKnown(known, *prop, rr.V); kf != nil {
				res.Known[kf.Class+" "+kf.Facts+" :: "+kf.What]++
				continue
			}
			// shrink, write the replay file, stop this worker
			class := rr.V.Class
			oracle := func(tape []uint32) (*core.Violation, []uint32) {
				x := execTape(*prop, tape, false, env)
				if x.Harness != nil {
					return nil, nil
				}
				return x.V, x.Ctx.T.Rec
			}
			maxExec, maxDur := 2000, 20*time.Second
			if len(tp.Rec) > 20000 {
				maxExec = 400
			}
			if core.NeverReturns(class) {
				// The blocked goroutine of the failing execution still holds its lock: this process
				// is spoilt for every later execution. One process per candidate; the verdict
				// written to the replay file is the fresh child's.
				res.Violations = append(res.Violations, deadlockFile(os.Args[0], *prop, *seed, *tier, r, tp.Rec, rr.V, rr.Ctx.Desc, tail(rr.Ctx.L.Lines, 200)))
				break
			}
			small, execs := core.Shrink(tp.Rec, class, oracle, maxExec, maxDur)
			fin := execTape(*prop, small, true, env)
			if fin.V == nil || fin.V.Class != class {
				// The verdict depends on state the process carries from one execution to the next
				// (that is what a history-dependent violation looks like from inside): in-process
				// minimisation is not trustworthy then. Keep the original tape and the original
				// verdict; the orchestrator re-establishes it with the worker's history (exec-seq).
				small = tp.Rec
				fin = execTape(*prop, small, true, env)
				if fin.V == nil || fin.V.Class != class {
					fin.V = rr.V
				}
			}
			rf := replayFile{Property: *prop, Seed: *seed, Run: r, Tier: *tier, Class: fin.V.Class, Facts: fin.V.Facts, Msg: fin.V.Msg, Event: fin.V.Event,
				Digest: fmt.Sprintf("%016x", fin.Ctx.L.Digest), Tape: small, Desc: fin.Ctx.Desc, Trace: tail(fin.Ctx.L.Lines, 400), OrigTape: len(tp.Rec), Build: buildName()}
			path := filepath.Join(replayDir(), fmt.Sprintf("%s-%d-%d.json", *prop, *seed, r))
			os.MkdirAll(filepath.Dir(path), 0o755)
			b, _ := json.MarshalIndent(rf, "", " ")
			if err := os.WriteFile(path, b, 0o644); err != nil {
				res.Harness = "cannot write replay file: " + err.Error()
				code = 2
				break
			}
			res.Violations = append(res.Violations, violationRec{Run: r, Class: fin.V.Class, Facts: fin.V.Facts, Msg: fin.V.Msg, Replay: path, Shrunk: len(small), Execs: execs})
			break
		}
	}
	props.Cleanup()
	for s := range sigs {
		res.Sigs = append(res.Sigs, s)
	}
	sort.Slice(res.Sigs, func(i, j int) bool { return res.Sigs[i] < res.Sigs[j] })
	b, _ := json.Marshal(res)
	if *out != "" {
		if err := os.WriteFile(*out, b, 0o644); err != nil {
			fmt.Fprintln(os.Stderr, err)
			return 2
		}
	} else {
		os.Stdout.Write(b)
	}
	return code
}

func tail(l []string, n int) []string {
	if len(l) <= n {
		return l
	}
	return append([]string{fmt.Sprintf("... %d earlier events omitted", len(l)-n)}, l[len(l)-n:]...)
}

// ---------------------------------------------------------------- deadlocks

var deadlockMarker = regexp.MustCompile(`(?m)^DEADLOCK-IN-RUN (\d+)$`)

// deadlockFile minimises a tape whose execution never returns (one fresh
// process of bin per candidate) and writes the replay file.
func deadlockFile(bin, prop string, seed uint64, tier string, r int, tape []uint32, v0 *core.Violation, desc, trace []string) violationRec {
	class := v0.Class
	oracle := func(tape []uint32) (*core.Violation, []uint32) {
		// candidates of a hang are judged with a lower CPU threshold (the minimised tape is then
		// re-established below with the full one, and dropped if it does not hold)
		if strings.HasSuffix(class, "/hang") {
			os.Setenv("VERIF_HANG_CPU_MS", "3000")
			defer os.Unsetenv("VERIF_HANG_CPU_MS")
		}
		c, o, used := execTapeProc(bin, prop, tier, tape, true)
		if c == 1 && classOf(o) == class {
			if used == nil {
				used = tape
			}
			return &core.Violation{Class: class}, used
		}
		return nil, nil
	}
	c0, o0, _ := execTapeProc(bin, prop, tier, tape, true)
	small, execs := tape, 0
	msg := v0.Msg
	if c0 == 1 && classOf(o0) == class {
		small, execs = core.Shrink(tape, class, oracle, 40, 60*time.Second)
		if c1, o1, _ := execTapeProc(bin, prop, tier, small, true); c1 == 1 && classOf(o1) == class {
			msg = msgOf(o1)
		} else {
			small = tape
			msg = msgOf(o0)
		}
	}
	rf := replayFile{Property: prop, Seed: seed, Run: r, Tier: tier, Class: class, Facts: v0.Facts, Msg: msg, Event: v0.Event,
		Digest: "fresh", Tape: small, Desc: desc, Trace: trace, OrigTape: len(tape), FreshOnly: true, Build: buildName()}
	path := filepath.Join(replayDir(), fmt.Sprintf("%s-%d-%d-%s.json", prop, seed, r, class[strings.LastIndex(class, "/")+1:]))
	os.MkdirAll(filepath.Dir(path), 0o755)
	b, _ := json.MarshalIndent(rf, "", " ")
	os.WriteFile(path, b, 0o644)
	return violationRec{Run: r, Class: class, Facts: rf.Facts, Msg: msg, Replay: path, Shrunk: len(small), Execs: execs}
}

// confirmDeadlock re-establishes, with the plain binary, a deadlock that a race worker met in run r.
func confirmDeadlock(prop string, seed uint64, tier string, r int) (*violationRec, string) {
	out, err := exec.Command(os.Args[0], "tape", "-prop", prop, "-seed", strconv.FormatUint(seed, 10), "-run", strconv.Itoa(r), "-tier", tier).Output()
	var tape []uint32
	if err != nil || json.Unmarshal(out, &tape) != nil {
		return nil, fmt.Sprintf("cannot obtain the tape of run %d", r)
	}
	c, o, _ := execTapeProc(os.Args[0], prop, tier, tape, true)
	if c != 1 || !core.NeverReturns(classOf(o)) {
		return nil, fmt.Sprintf("run %d blocked forever in a race worker, but not in a fresh process of the plain binary (exit %d):\n%s", r, c, lastLines(o, 20))
	}
	v0 := &core.Violation{Class: classOf(o), Facts: factsOf(o), Msg: msgOf(o)}
	vr := deadlockFile(os.Args[0], prop, seed, tier, r, tape, v0, nil, nil)
	return &vr, ""
}

// ---------------------------------------------------------------- replay

func runReplay(args []string) int {
	fs := flag.NewFlagSet("replay", flag.ExitOnError)
	file := fs.String("file", "", "")
	quiet := fs.Bool("quiet", false, "")
	fs.Parse(args)
	b, err := os.ReadFile(*file)
	if err != nil {
		fmt.Fprintln(os.Stderr, err)
		return 2
	}
	var rf replayFile
	if err := json.Unmarshal(b, &rf); err != nil {
		fmt.Fprintln(os.Stderr, err)
		return 2
	}
	if props.Registry[rf.Property] == nil {
		fmt.Fprintf(os.Stderr, "vsim: no such property %q\n", rf.Property)
		return 2
	}
	if strings.HasSuffix(rf.Class, "/race") {
		return replayRace(&rf, *file)
	}
	if strings.HasSuffix(rf.Class, "/run-differs-in-fresh-process") {
		bin := binFor(rf.Build)
		_, outSeq := execSeqProc(bin, rf.Property, rf.Tier, rf.Seed, rf.History, rf.Tape, true)
		_, outFresh, _ := execTapeProc(bin, rf.Property, rf.Tier, rf.Tape, true)
		a, b := opDigestOf(outSeq), opDigestOf(outFresh)
		if a == "" || b == "" {
			fmt.Printf("REPLAY-DIVERGED: could not execute the tape (after history: %q, fresh: %q)\n", lastLines(outSeq, 3), lastLines(outFresh, 3))
			return 2
		}
		if a != b {
			fmt.Printf("%s: the tape gives operation digest %s after the %d history runs and %s in a fresh process\n", rf.Class, a, len(rf.History), b)
			fmt.Printf("VIOLATION property=%s replay=%s\n", rf.Property, *file)
			return 1
		}
		fmt.Printf("REPLAY-CLEAN property=%s file=%s: same results with and without the history on this tree\n", rf.Property, *file)
		return 3
	}
	if b := binFor(rf.Build); b != os.Args[0] {
		if _, err := os.Stat(b); err != nil {
			fmt.Printf("REPLAY-DIVERGED: %s not built (run ./check %s quick once, or ./check build)\n", b, rf.Property)
			return 2
		}
		c := exec.Command(b, os.Args[1:]...)
		c.Stdout, c.Stderr, c.Env = os.Stdout, os.Stderr, os.Environ()
		c.Run()
		if c.ProcessState != nil {
			return c.ProcessState.ExitCode()
		}
		return 2
	}
	env := map[string]string{"tier": rf.Tier, "self": os.Args[0], "race": strconv.FormatBool(raceEnabled)}
	if rf.FreshOnly {
		// the verdict was established by exec-tape in a young process, where the interleaved phase
		// comes first (what a library does once per process must happen while tasks are concurrent)
		env["fresh"] = "1"
	}
	if len(rf.History) > 0 {
		debug.SetGCPercent(-1) // process state (e.g. sync.Pool contents) must not depend on GC timing
		runHistory(rf.Property, rf.Seed, rf.History, env)
		fmt.Printf("executed %d history runs first (the violation depends on what was parsed before in the process)\n", len(rf.History))
	}
	res := execTape(rf.Property, rf.Tape, true, env)
	props.Cleanup()
	if res.Harness != nil {
		fmt.Printf("REPLAY-DIVERGED harness panic: %v\n%s\n", res.Harness.Val, res.Harness.Stack)
		return 2
	}
	if !*quiet {
		for _, d := range res.Ctx.Desc {
			fmt.Println(d)
		}
		for _, l := range tail(res.Ctx.L.Lines, 60) {
			fmt.Println(l)
		}
	}
	dg := fmt.Sprintf("%016x", res.Ctx.L.Digest)
	if res.V == nil {
		fmt.Printf("REPLAY-CLEAN property=%s file=%s: the recorded tape no longer violates the property on this tree (recorded: %s)\n", rf.Property, *file, rf.Class)
		return 3
	}
	if rf.FreshOnly && res.V.Class == rf.Class {
		fmt.Printf("%s\n", res.V.String())
		fmt.Printf("VIOLATION property=%s replay=%s\n", rf.Property, *file)
		return 1
	}
	if res.V.Class != rf.Class || dg != rf.Digest || res.V.Msg != rf.Msg {
		fmt.Printf("REPLAY-DIFFERS recorded class=%s digest=%s; now class=%s digest=%s\n  now: %s\n", rf.Class, rf.Digest, res.V.Class, dg, res.V.Msg)
		if res.V.Class == rf.Class {
			fmt.Printf("VIOLATION property=%s replay=%s\n", rf.Property, *file)
			return 1
		}
		return 2
	}
	fmt.Printf("%s\n", res.V.String())
	fmt.Printf("VIOLATION property=%s replay=%s\n", rf.Property, *file)
	return 1
}

// ---------------------------------------------------------------- check (orchestrator)

func runCheck(args []string) int {
	fs := flag.NewFlagSet("check", flag.ExitOnError)
	prop := fs.String("prop", "", "")
	tier := fs.String("tier", "quick", "")
	workers := fs.Int("workers", 0, "")
	runsFlag := fs.Int("runs", 0, "")
	raceBin := fs.String("race-bin", "", "")
	innerBin := fs.String("inner-bin", "", "")
	noEvidence := fs.Bool("no-evidence", false, "")
	fs.Parse(args)
	cfg := cfgs[*prop]
	if cfg == nil || props.Registry[*prop] == nil {
		fmt.Fprintf(os.Stderr, "vsim: property %q is not claimed\n", *prop)
		return 2
	}
	seed := envSeed()
	W := *workers
	if W == 0 {
		W = runtime.NumCPU()
		if W > 16 {
			W = 16
		}
	}
	N := cfg.quickRuns
	budget := cfg.quickBudget
	if *tier == "thorough" {
		N = cfg.thoroughRuns
		budget = cfg.thoroughBudget
	}
	if *runsFlag > 0 {
		N = *runsFlag
	}
	if s := os.Getenv("VERIF_BUDGET_S"); s != "" {
		if v, err := strconv.Atoi(s); err == nil {
			budget = time.Duration(v) * time.Second
		}
	}
	start := time.Now()
	fmt.Printf("vsim: property=%s tier=%s VERIF_SEED=%d runs=%d workers=%d budget/worker=%s extra-corpus=%d\n", *prop, *tier, seed, N, W, budget, props.ExtraCorpusSize())
	tmp, err := os.MkdirTemp("", "vsim-"+*prop+"-")
	if err != nil {
		fmt.Fprintln(os.Stderr, err)
		return 2
	}
	defer os.RemoveAll(tmp)
	type job struct {
		cmd  *exec.Cmd
		out  string
		race bool
		errb *strings.Builder
	}
	var jobs []*job
	// Run indices are dealt round-robin to `slots`; a plain worker owns plainWeight
	// consecutive slots, a race-build worker one (it is 5-10x slower), so that all workers
	// finish at about the same time. The set of runs executed does not depend on W.
	plainWeight := 1
	if cfg.raceShare > 0 && *raceBin != "" {
		plainWeight = 3
	}
	isRace := func(w int) bool {
		return cfg.raceShare > 0 && *raceBin != "" && w%cfg.raceShare == cfg.raceShare-1
	}
	slots := 0
	firstSlot := make([]int, W)
	kOf := make([]int, W)
	for w := 0; w < W; w++ {
		firstSlot[w] = slots
		kOf[w] = plainWeight
		if isRace(w) {
			kOf[w] = 1
		} else if cfg.innerShare > 0 && *innerBin != "" && w%cfg.innerShare == 0 {
			kOf[w] = 2
		}
		slots += kOf[w]
	}
	isInner := func(w int) bool {
		return cfg.innerShare > 0 && *innerBin != "" && !isRace(w) && w%cfg.innerShare == 0
	}
	for w := 0; w < W; w++ {
		bin := os.Args[0]
		race := false
		if isRace(w) {
			bin = *raceBin
			race = true
		} else if isInner(w) {
			bin = *innerBin
		}
		out := filepath.Join(tmp, fmt.Sprintf("w%d.json", w))
		cmd := exec.Command(bin, "worker", "-prop", *prop, "-seed", strconv.FormatUint(seed, 10), "-w", strconv.Itoa(firstSlot[w]), "-k", strconv.Itoa(kOf[w]), "-W", strconv.Itoa(slots), "-n", strconv.Itoa(N), "-tier", *tier, "-out", out, "-budget", budget.String(), "-fresh-every", strconv.Itoa(cfg.freshEvery))
		cmd.Env = append(os.Environ(), "GORACE=halt_on_error=1 exitcode=66 atexit_sleep_ms=0")
		if cfg.singleProc {
			cmd.Env = append(cmd.Env, "GOMAXPROCS=1")
		} else {
			cmd.Env = append(cmd.Env, "GOMAXPROCS=2")
		}
		eb := &strings.Builder{}
		cmd.Stderr = eb
		cmd.Stdout = eb
		if err := cmd.Start(); err != nil {
			fmt.Fprintln(os.Stderr, "vsim: cannot start worker:", err)
			return 2
		}
		jobs = append(jobs, &job{cmd, out, race, eb})
	}
	total := workerOut{Counters: map[string]int64{}, Known: map[string]int{}}
	sigs := map[uint64]struct{}{}
	broken := []string{}
	raceRuns := 0
	raceSeen := map[string]bool{}
	// watchdog: a worker may take budget + grace
	grace := budget + 90*time.Second
	for i, j := range jobs {
		done := make(chan error, 1)
		go func() { done <- j.cmd.Wait() }()
		var werr error
		select {
		case werr = <-done:
		case <-time.After(time.Until(start.Add(grace))):
			j.cmd.Process.Kill()
			<-done
			broken = append(broken, fmt.Sprintf("worker %d: watchdog: no result after %s", i, grace))
			continue
		}
		b, rerr := os.ReadFile(j.out)
		var wo workerOut
		if rerr != nil || json.Unmarshal(b, &wo) != nil {
			errOut := j.errb.String()
			if strings.Contains(errOut, "WARNING: DATA RACE") {
				// the race build stopped the worker: identify the run, confirm and minimise it
				k := strings.Index(errOut, "WARNING: DATA RACE")
				ms := runMarker.FindAllStringSubmatch(errOut[:k], -1)
				if len(ms) == 0 {
					broken = append(broken, fmt.Sprintf("worker %d: race report before any run:\n%s", i, lastLines(errOut, 60)))
					continue
				}
				rr, _ := strconv.Atoi(ms[len(ms)-1][1])
				raceRuns += len(ms)
				total.Runs += len(ms)
				if _, lib := raceSummary(errOut); !lib {
					broken = append(broken, fmt.Sprintf("worker %d run %d: race report without a frame in the library (a race inside the harness):\n%s", i, rr, lastLines(errOut, 80)))
					continue
				}
				sumKey, _ := raceSummary(errOut)
				if raceSeen[sumKey] || len(raceSeen) >= 2 {
					continue // same conflicting pair already confirmed and minimised
				}
				raceSeen[sumKey] = true
				vr, problem := confirmRace(*prop, seed, *tier, rr, *raceBin, cfg.singleProc, errOut)
				if vr == nil {
					broken = append(broken, fmt.Sprintf("worker %d: %s", i, problem))
					continue
				}
				total.Violations = append(total.Violations, *vr)
				continue
			}
			if m := deadlockMarker.FindStringSubmatch(errOut); m != nil {
				// a race worker met a run that never returns: the verdict is re-established with the plain binary
				rr, _ := strconv.Atoi(m[1])
				dup := false
				for _, v := range total.Violations {
					dup = dup || core.NeverReturns(v.Class)
				}
				if dup {
					continue
				}
				vr, problem := confirmDeadlock(*prop, seed, *tier, rr)
				if vr == nil {
					broken = append(broken, fmt.Sprintf("worker %d: %s", i, problem))
					continue
				}
				total.Violations = append(total.Violations, *vr)
				continue
			}
			msg := fmt.Sprintf("worker %d produced no result (%v):\n%s", i, werr, lastLines(errOut, 40))
			broken = append(broken, msg)
			continue
		}
		if wo.Harness != "" {
			broken = append(broken, fmt.Sprintf("worker %d: %s", i, wo.Harness))
		}
		total.Runs += wo.Runs
		if j.race {
			raceRuns += wo.Runs
		}
		total.Events += wo.Events
		total.NonTrivial += wo.NonTrivial
		total.SelfChecks += wo.SelfChecks
		total.Digest ^= wo.Digest
		total.BudgetHit = total.BudgetHit || wo.BudgetHit
		total.SigsCapped = total.SigsCapped || wo.SigsCapped
		mergeCounters(total.Counters, wo.Counters)
		for k, v := range wo.Known {
			total.Known[k] += v
		}
		for _, s := range wo.Sigs {
			sigs[s] = struct{}{}
		}
		if len(total.Samples) < 3 {
			total.Samples = append(total.Samples, wo.Samples...)
		}
		total.Violations = append(total.Violations, wo.Violations...)
	}
	wall := time.Since(start).Seconds()

	// reach probes
	blind := []string{}
	if len(total.Violations) == 0 && len(broken) == 0 {
		for _, p := range cfg.requiredProbes {
			if total.Counters[p] == 0 {
				blind = append(blind, p)
			}
		}
	}

	// confirm each violation by replaying its file in a fresh process
	exit := 0
	sort.Slice(total.Violations, func(i, j int) bool { return total.Violations[i].Run < total.Violations[j].Run })
	seenClass := map[string]bool{}
	for _, v := range total.Violations {
		key := v.Class + "|" + v.Facts
		if seenClass[key] {
			continue
		}
		seenClass[key] = true
		doReplay := func() (*exec.Cmd, []byte) {
			c := exec.Command(os.Args[0], "replay", "-file", v.Replay, "-quiet")
			c.Env = append(os.Environ(), "GORACE=halt_on_error=1 exitcode=66 atexit_sleep_ms=0")
			if cfg.singleProc {
				c.Env = append(c.Env, "GOMAXPROCS=1")
			}
			ob, _ := c.CombinedOutput()
			return c, ob
		}
		c, ob := doReplay()
		if !strings.HasSuffix(v.Class, "/race") && strings.Contains(string(ob), "REPLAY-CLEAN") {
			// found in a worker but not reproducible from the tape alone: depends on earlier runs of that worker
			owner := -1
			for w := 0; w < W; w++ {
				if sl := v.Run % slots; sl >= firstSlot[w] && sl < firstSlot[w]+kOf[w] {
					owner = w
				}
			}
			owns := func(r int) bool {
				sl := r % slots
				return owner >= 0 && sl >= firstSlot[owner] && sl < firstSlot[owner]+kOf[owner]
			}
			if historyConfirm(*prop, *tier, seed, &v, owns, cfg.singleProc) {
				c, ob = doReplay()
				v.Facts += " history-dependent"
			}
		}
		if c.ProcessState != nil && c.ProcessState.ExitCode() == 1 && strings.Contains(string(ob), "VIOLATION property=") {
			fmt.Printf("run %d: %s [%s]\n  %s\n  minimised tape: %d draws (%d shrink executions)\n", v.Run, v.Class, v.Facts, v.Msg, v.Shrunk, v.Execs)
			fmt.Printf("VIOLATION property=%s replay=%s\n", *prop, v.Replay)
			exit = 1
		} else if strings.HasSuffix(v.Class, "/race") && strings.Contains(string(ob), "REPLAY-CLEAN") {
			// the detector's own report is authoritative (no false positives); its bounded history makes reproduction probabilistic
			fmt.Printf("run %d: %s [%s]\n  %s\n  (reported by the race detector in the worker; 6 replay attempts did not reproduce it - the report is in the replay file)\n", v.Run, v.Class, v.Facts, v.Msg)
			fmt.Printf("VIOLATION property=%s replay=%s\n", *prop, v.Replay)
			exit = 1
		} else {
			broken = append(broken, fmt.Sprintf("replay of %s did not reproduce in a fresh process:\n%s", v.Replay, lastLines(string(ob), 20)))
		}
	}
	knownKeys := make([]string, 0, len(total.Known))
	for k := range total.Known {
		knownKeys = append(knownKeys, k)
	}
	sort.Strings(knownKeys)
	for _, k := range knownKeys {
		fmt.Printf("KNOWN-FINDING: property=%s %s (hit %d times)\n", *prop, k, total.Known[k])
	}

	// evidence
	faults := map[string]int64{}
	probes := map[string]int64{}
	other := map[string]int64{}
	for k, v := range total.Counters {
		switch {
		case strings.HasPrefix(k, "fault_") || strings.HasPrefix(k, "eof_") || strings.HasPrefix(k, "reads_after"):
			faults[k] = v
		case strings.HasPrefix(k, "probe_"):
			probes[k] = v
		default:
			other[k] = v
		}
	}
	distinct := len(sigs)
	rule := cfg.rule
	if total.SigsCapped {
		rule += " (signature set capped at 400000 per worker: distinct_nontrivial is a lower bound)"
	}
	ev := map[string]interface{}{
		"property_id": *prop,
		"tier":        *tier,
		"seed":        int64(seed),
		"level":       "exploration",
		"wall_s":      wall,
		"violations":  len(seenClass),
		"coverage": map[string]interface{}{
			"evaluations":           total.Runs,
			"distinct_nontrivial":   distinct,
			"nontrivial_runs":       total.NonTrivial,
			"rule":                  rule,
			"samples":               total.Samples,
			"simulated_events":      total.Events,
			"runs_per_hour":         int64(float64(total.Runs) / wall * 3600),
			"seeds":                 fmt.Sprintf("VERIF_SEED=%d, run seeds mix(seed,%s,0..%d)", seed, *prop, N-1),
			"simulated_time":        "not applicable: the library has no clock, timer or deadline; progress is measured in simulated events",
			"faults_fired":          faults,
			"reach_probes":          probes,
			"other_counters":        other,
			"race_detector_runs":    raceRuns,
			"inner_yield_build":     fmt.Sprintf("%d runs by the binary built against an instrumented copy of the library (a yield hook at every function entry and loop iteration, so that tasks are preempted inside library calls)", total.Counters["probe_inner_yield_runs"]),
			"determinism_selfcheck": fmt.Sprintf("%d runs re-executed from their recorded tape inside the batch, digests equal", total.SelfChecks),
			"batch_digest":          fmt.Sprintf("%016x", total.Digest),
			"budget_cap_hit":        total.BudgetHit,
			"workers":               W,
			"real_vs_stub":          cfg.realStub,
			"known_findings_hit":    total.Known,
		},
		"assumptions": cfg.assumptions,
	}
	if !*noEvidence && os.Getenv("VERIF_NO_EVIDENCE") == "" {
		os.MkdirAll(filepath.Join(verifDir(), "evidence"), 0o755)
		b, _ := json.MarshalIndent(ev, "", " ")
		if err := os.WriteFile(filepath.Join(verifDir(), "evidence", *prop+".json"), b, 0o644); err != nil {
			fmt.Fprintln(os.Stderr, "vsim: cannot write evidence:", err)
			return 2
		}
	}
	fmt.Printf("vsim: batch digest %016x\n", total.Digest)
	fmt.Printf("vsim: %d runs (%d under the race detector), %d events, %d distinct non-trivial signatures, %.1fs, %.0f runs/hour\n", total.Runs, raceRuns, total.Events, distinct, wall, float64(total.Runs)/wall*3600)
	fk := core.SortedKeys(faults)
	for _, k := range fk {
		fmt.Printf("  %-36s %d\n", k, faults[k])
	}
	for _, k := range core.SortedKeys(probes) {
		fmt.Printf("  %-36s %d\n", k, probes[k])
	}
	if len(broken) > 0 {
		for _, b := range broken {
			fmt.Println("MACHINERY-BROKEN:", b)
		}
		if exit == 0 {
			return 2
		}
	}
	if len(blind) > 0 && total.BudgetHit {
		// the wall-clock cap cut the batch short (slow or loaded machine): what was explored
		// held; the reach probes are only demanded of a complete batch
		fmt.Printf("NOTE: wall-clock budget hit after %d of %d runs; reach probes still at zero: %s\n", total.Runs, N, strings.Join(blind, ", "))
		blind = nil
	}
	if len(blind) > 0 && *runsFlag == 0 {
		fmt.Printf("MACHINERY-BLIND: reach probes at zero: %s\n", strings.Join(blind, ", "))
		if exit == 0 {
			return 2
		}
	}
	if exit == 0 {
		fmt.Printf("OK property=%s held on everything explored\n", *prop)
	}
	return exit
}

// mergeCounters adds src into dst; keys starting with max_ are merged by maximum.
func mergeCounters(dst, src map[string]int64) {
	for k, v := range src {
		if strings.HasPrefix(k, "max_") {
			if v > dst[k] {
				dst[k] = v
			}
		} else {
			dst[k] += v
		}
	}
}

func lastLines(s string, n int) string {
	l := strings.Split(strings.TrimRight(s, "\n"), "\n")
	if len(l) > n {
		l = l[len(l)-n:]
	}
	return strings.Join(l, "\n")
}

// ---------------------------------------------------------------- digest

func runDigest(args []string) int {
	fs := flag.NewFlagSet("digest", flag.ExitOnError)
	prop := fs.String("prop", "", "")
	seed := fs.Uint64("seed", defaultSeed, "")
	n := fs.Int("n", 200, "")
	fs.Parse(args)
	f := props.Registry[*prop]
	if f == nil {
		return 2
	}
	env := map[string]string{"tier": "quick", "self": os.Args[0], "race": strconv.FormatBool(raceEnabled)}
	defer props.Cleanup()
	for r := 0; r < *n; r++ {
		tp := core.NewTape(core.RunSeed(*seed, *prop, r))
		rr := core.Exec(*prop, tp, false, func(c *core.Ctx) *core.Violation { c.Env = env; return f(c) })
		v := "-"
		if rr.V != nil {
			v = rr.V.Class
		}
		if rr.Harness != nil {
			v = "HARNESS"
		}
		fmt.Printf("%d %016x %d %s\n", r, rr.Ctx.L.Digest, rr.Ctx.L.Seq, v)
	}
	return 0
}

func runHistory(prop string, seed uint64, hist []int, env map[string]string) {
	f := props.Registry[prop]
	for _, r := range hist {
		tp := core.NewTape(core.RunSeed(seed, prop, r))
		core.Exec(prop, tp, false, func(c *core.Ctx) *core.Violation { c.Env = env; return f(c) })
	}
}

type execSeqReq struct {
	Property string   `json:"property"`
	Tier     string   `json:"tier"`
	Seed     uint64   `json:"seed"`
	History  []int    `json:"history"`
	Tape     []uint32 `json:"tape"`
}

// runExecSeq executes history runs and then a tape in one process (GC off).
func runExecSeq() int {
	var req execSeqReq
	if err := json.NewDecoder(os.Stdin).Decode(&req); err != nil || props.Registry[req.Property] == nil {
		return 2
	}
	debug.SetGCPercent(-1)
	env := map[string]string{"tier": req.Tier, "self": os.Args[0], "race": strconv.FormatBool(raceEnabled)}
	runHistory(req.Property, req.Seed, req.History, env)
	res := execTape(req.Property, req.Tape, false, env)
	props.Cleanup()
	if res.Harness != nil {
		return 2
	}
	fmt.Printf("OPDIGEST %016x\n", res.Ctx.L.OpDigest)
	if res.V != nil {
		fmt.Printf("CLASS %s\n", res.V.Class)
		return 1
	}
	return 0
}

func execSeqProc(bin, prop, tier string, seed uint64, hist []int, tape []uint32, single bool) (int, string) {
	req, _ := json.Marshal(execSeqReq{Property: prop, Tier: tier, Seed: seed, History: hist, Tape: tape})
	cmd := exec.Command(bin, "exec-seq")
	cmd.Stdin = bytes.NewReader(req)
	if single {
		cmd.Env = append(os.Environ(), "GOMAXPROCS=1")
	}
	out, _ := cmd.CombinedOutput()
	code := 2
	if cmd.ProcessState != nil {
		code = cmd.ProcessState.ExitCode()
	}
	return code, string(out)
}

// historyConfirm handles a violation that a worker found but that does not reproduce from
// its tape alone in a fresh process: it depends on runs executed earlier in the worker. The
// earlier runs of that worker (indices r0, r0+W, ... < r) are minimised with ddmin, one
// process per candidate, and stored in the replay file.
func historyConfirm(prop, tier string, seed uint64, v *violationRec, owns func(r int) bool, single bool) bool {
	b, err := os.ReadFile(v.Replay)
	if err != nil {
		return false
	}
	var rf replayFile
	if json.Unmarshal(b, &rf) != nil {
		return false
	}
	// The worker executed some of its runs twice (the determinism self-check re-executes every
	// 97th run, and worker 0 its first few, from the recorded tape): state that merely counts
	// what the process has done - a slab cursor, a generation counter - only lines up again if
	// the history repeats those too. An index listed twice is executed twice.
	k0 := 0
	for owns(k0) {
		k0++
	}
	var hist []int
	for i := 0; i < v.Run; i++ {
		if owns(i) {
			hist = append(hist, i)
			if i%97 == 0 || i < 3*k0 {
				hist = append(hist, i)
			}
		}
	}
	class := "CLASS " + v.Class
	test := func(h []int) bool {
		code, out := execSeqProc(binFor(rf.Build), prop, tier, seed, h, rf.Tape, single)
		return code == 1 && strings.Contains(out, class)
	}
	if !test(hist) {
		return false
	}
	// ddmin
	deadline := time.Now().Add(150 * time.Second)
	n := 2
	for len(hist) >= 2 && time.Now().Before(deadline) {
		chunk := (len(hist) + n - 1) / n
		reduced := false
		for i := 0; i < len(hist) && !reduced; i += chunk {
			j := i + chunk
			if j > len(hist) {
				j = len(hist)
			}
			// try the chunk alone, then its complement
			if c := hist[i:j]; len(c) < len(hist) && test(c) {
				hist = append([]int(nil), c...)
				n = 2
				reduced = true
			} else if c := append(append([]int(nil), hist[:i]...), hist[j:]...); len(c) > 0 && len(c) < len(hist) && test(c) {
				hist = c
				if n > 2 {
					n--
				}
				reduced = true
			}
		}
		if !reduced {
			if n >= len(hist) {
				break
			}
			n *= 2
			if n > len(hist) {
				n = len(hist)
			}
		}
	}
	rf.History = hist
	rf.Facts += " history-dependent"
	nb, _ := json.MarshalIndent(rf, "", " ")
	return os.WriteFile(v.Replay, nb, 0o644) == nil
}

// runTape prints the recorded tape of one run as JSON.
func runTape(args []string) int {
	fs := flag.NewFlagSet("tape", flag.ExitOnError)
	prop := fs.String("prop", "", "")
	seed := fs.Uint64("seed", defaultSeed, "")
	run := fs.Int("run", 0, "")
	tier := fs.String("tier", "quick", "")
	fs.Parse(args)
	f := props.Registry[*prop]
	if f == nil {
		return 2
	}
	env := map[string]string{"tier": *tier, "self": os.Args[0], "race": strconv.FormatBool(raceEnabled)}
	tp := core.NewTape(core.RunSeed(*seed, *prop, *run))
	core.Exec(*prop, tp, false, func(c *core.Ctx) *core.Violation { c.Env = env; return f(c) })
	props.Cleanup()
	b, _ := json.Marshal(tp.Rec)
	os.Stdout.Write(b)
	return 0
}

type execTapeReq struct {
	Property string   `json:"property"`
	Tier     string   `json:"tier"`
	Tape     []uint32 `json:"tape"`
}

// runExecTape executes a tape given on stdin. Exit 0: no violation; 1: oracle
// violation (class on stdout); 66: the race detector stopped the process.
func runExecTape() int {
	var req execTapeReq
	if err := json.NewDecoder(os.Stdin).Decode(&req); err != nil {
		fmt.Fprintln(os.Stderr, err)
		return 2
	}
	if props.Registry[req.Property] == nil {
		return 2
	}
	env := map[string]string{"tier": req.Tier, "self": os.Args[0], "race": strconv.FormatBool(raceEnabled), "fresh": "1"}
	res := execTape(req.Property, req.Tape, false, env)
	props.Cleanup()
	if res.Harness != nil {
		fmt.Printf("HARNESS %v\n", res.Harness.Val)
		return 2
	}
	b, _ := json.Marshal(res.Ctx.T.Rec)
	fmt.Printf("TAPE %s\n", b)
	fmt.Printf("DIGEST %016x\n", res.Ctx.L.Digest)
	fmt.Printf("OPDIGEST %016x\n", res.Ctx.L.OpDigest)
	if res.V != nil {
		fmt.Printf("CLASS %s\n", res.V.Class)
		fmt.Printf("FACTS %s\n", res.V.Facts)
		fmt.Printf("MSG %s\n", strings.ReplaceAll(res.V.Msg, "\n", " "))
		return 1
	}
	return 0
}

func factsOf(out string) string { return lineOf(out, "FACTS ") }

func lineOf(out, prefix string) string {
	for _, l := range strings.Split(out, "\n") {
		if strings.HasPrefix(l, prefix) {
			return strings.TrimPrefix(l, prefix)
		}
	}
	return ""
}
func classOf(out string) string    { return lineOf(out, "CLASS ") }
func msgOf(out string) string      { return lineOf(out, "MSG ") }
func digestOf(out string) string   { return lineOf(out, "DIGEST ") }
func opDigestOf(out string) string { return lineOf(out, "OPDIGEST ") }

// runTriage prints one minimised example per (class, facts) among n runs (development aid).
func runTriage(args []string) int {
	fs := flag.NewFlagSet("triage", flag.ExitOnError)
	prop := fs.String("prop", "", "")
	seed := fs.Uint64("seed", defaultSeed, "")
	n := fs.Int("n", 2000, "")
	byClass := fs.Bool("by-class", false, "")
	fs.Parse(args)
	f := props.Registry[*prop]
	env := map[string]string{"tier": "quick", "self": os.Args[0], "race": strconv.FormatBool(raceEnabled)}
	seen := map[string]int{}
	defer props.Cleanup()
	for r := 0; r < *n; r++ {
		tp := core.NewTape(core.RunSeed(*seed, *prop, r))
		rr := core.Exec(*prop, tp, false, func(c *core.Ctx) *core.Violation { c.Env = env; return f(c) })
		if rr.Harness != nil {
			fmt.Printf("run %d HARNESS PANIC %v\n%s\n", r, rr.Harness.Val, rr.Harness.Stack)
			return 2
		}
		if rr.V == nil {
			continue
		}
		key := rr.V.Class + " " + rr.V.Facts
		if *byClass {
			key = rr.V.Class
		}
		seen[key]++
		if seen[key] > 1 {
			continue
		}
		class := rr.V.Class
		small, _ := core.Shrink(tp.Rec, class, func(tape []uint32) (*core.Violation, []uint32) {
			x := execTape(*prop, tape, false, env)
			if x.Harness != nil {
				return nil, nil
			}
			return x.V, x.Ctx.T.Rec
		}, 1500, 10*time.Second)
		fin := execTape(*prop, small, true, env)
		fmt.Printf("=== run %d %s\n", r, key)
		for _, d := range fin.Ctx.Desc {
			fmt.Println("   ", d)
		}
		for _, l := range tail(fin.Ctx.L.Lines, 12) {
			fmt.Println("    ", l)
		}
		if fin.V != nil {
			fmt.Println("   =>", fin.V.String())
		}
	}
	keys := make([]string, 0, len(seen))
	for k := range seen {
		keys = append(keys, k)
	}
	sort.Strings(keys)
	for _, k := range keys {
		fmt.Printf("%6d %s\n", seen[k], k)
	}
	return 0
}

func main() {
	if len(os.Args) < 2 {
		fmt.Fprintln(os.Stderr, "usage: vsim check|worker|replay|digest ...")
		os.Exit(2)
	}
	switch os.Args[1] {
	case "check":
		os.Exit(runCheck(os.Args[2:]))
	case "worker":
		os.Exit(runWorker(os.Args[2:]))
	case "replay":
		os.Exit(runReplay(os.Args[2:]))
	case "digest":
		os.Exit(runDigest(os.Args[2:]))
	case "solo":
		out, err := props.SoloMain(os.Args[2:])
		if err != nil {
			fmt.Fprintln(os.Stderr, err)
			os.Exit(2)
		}
		os.Stdout.Write(out)
		os.Exit(0)
	case "tape":
		os.Exit(runTape(os.Args[2:]))
	case "exec-tape":
		os.Exit(runExecTape())
	case "exec-seq":
		os.Exit(runExecSeq())
	case "instrument":
		fs := flag.NewFlagSet("instrument", flag.ExitOnError)
		repo := fs.String("repo", "/repo", "")
		out := fs.String("out", "", "")
		fs.Parse(os.Args[2:])
		if err := runInstrument(*repo, *out); err != nil {
			fmt.Fprintln(os.Stderr, "vsim instrument:", err)
			os.Exit(2)
		}
		os.Exit(0)
	case "corpus":
		fs := flag.NewFlagSet("corpus", flag.ExitOnError)
		repo := fs.String("repo", "/repo", "")
		out := fs.String("out", "", "")
		fs.Parse(os.Args[2:])
		n, err := props.ExtractCorpus(*repo, *out)
		if err != nil {
			fmt.Fprintln(os.Stderr, "vsim corpus:", err)
			os.Exit(2)
		}
		fmt.Printf("vsim: extracted %d string literals from the test files under %s\n", n, *repo)
		os.Exit(0)
	case "triage":
		os.Exit(runTriage(os.Args[2:]))
	}
	fmt.Fprintln(os.Stderr, "vsim: unknown command", os.Args[1])
	os.Exit(2)
}
