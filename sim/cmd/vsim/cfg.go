package main

import "time"

var realLib = []string{"github.com/tdewolff/parse/v2 (working tree of /repo, unmodified, no hooks)", "Go runtime and standard library"}

func init() {
	cfgs["C13"] = &propCfg{
		quickRuns: 60000, thoroughRuns: 12000000,
		quickBudget: 100 * time.Second, thoroughBudget: 14 * time.Minute,
		requiredProbes: []string{
			"probe_refill_unfinished_token", "probe_refill_inplace", "probe_refill_reuse_pool_block", "probe_refill_fresh_alloc",
			"probe_buffer_growth", "eof_with_data", "fault_zero_before_eof", "fault_error_with_data", "fault_error_without_data",
			"probe_held_expired", "probe_held_verified_after_swap", "probe_shiftext_had_to_read", "probe_memory_family_runs",
			"probe_peekrune_multibyte", "fault_zero_read", "fault_short_read", "probe_drained_to_end",
		},
		rule: "one run = one seeded history (swarm-configured operation mix, buffer size, Free discipline) on the real buffer.StreamLexer over a simulated reader whose chunking/zero reads/EOF style/failure point are drawn per Read call; non-trivial = at least one refill happened while a token was unfinished, or an injected reader failure fired, or the run belongs to the long-stream memory family; distinct = hash of the sequence (operation kind, refill kind caused) differs",
		realStub: map[string][]string{
			"real": append([]string{"buffer.StreamLexer, bufferPool"}, realLib...),
			"stub": {"faultio.Reader (io.Reader)", "the caller (operation generator)", "reference cursor model (oracle)"},
		},
		assumptions: []string{
			"held-slice guarantee threshold = bytes shifted when the slice was handed out (DESIGN.md 3.1)",
			"operation sequences respect the documented contract (no move past the end; moves over unpeeked bytes only directly before Shift)",
			"memory held is read by reflection from StreamLexer.buf and pool; if the fields are renamed the bound is not checked and the evidence says so",
		},
	}
}
