package main

import "time"

var realLib = []string{"github.com/tdewolff/parse/v2 (working tree of /repo, unmodified, no hooks)", "Go runtime and standard library"}

func init() {
	cfgs["C13"] = &propCfg{
		quickRuns: 200000, thoroughRuns: 24000000,
		quickBudget: 100 * time.Second, thoroughBudget: 14 * time.Minute,
		requiredProbes: []string{
			"probe_refill_unfinished_token", "eof_with_data", "fault_zero_before_eof", "fault_error_with_data", "fault_error_without_data",
			"probe_held_expired", "probe_held_verified_after_swap", "probe_shiftext_had_to_read", "probe_memory_family_runs",
			"probe_peekrune_multibyte", "fault_zero_read", "fault_short_read", "probe_drained_to_end", "probe_long_input", "probe_huge_input", "probe_memory_family_lagged_free", "probe_memory_family_skips", "fault_error_reported_once_then_eof", "fault_error_transient_source_carries_on",
		},
		rule: "one run = one seeded history (swarm-configured operation mix, buffer size, Free discipline) on the real buffer.StreamLexer over a simulated reader whose chunking/zero reads/EOF style/failure point are drawn per Read call; non-trivial = at least one refill happened while a token was unfinished, or an injected reader failure fired, or the run belongs to the long-stream memory family; distinct = hash of the sequence (operation kind, refill kind caused) differs",
		realStub: map[string][]string{
			"real": append([]string{"buffer.StreamLexer, bufferPool"}, realLib...),
			"stub": {"faultio.Reader (io.Reader)", "the caller (operation generator)", "reference cursor model (oracle)"},
		},
		assumptions: []string{
			"a call is judged not to return (<P>/hang) when the process spends 20 s of CPU time without a single simulator event while the run's goroutine is inside the library; the slowest legitimate operation costs milliseconds",
			"held-slice guarantee threshold = bytes shifted when the slice was handed out (DESIGN.md 3.1)",
			"operation sequences respect the documented contract (no move past the end; moves over unpeeked bytes only directly before Shift)",
			"memory held is read by reflection from StreamLexer.buf and pool; if the fields are renamed the bound is not checked and the evidence says so",
		},
	}

	cfgs["C12"] = &propCfg{
		quickRuns: 2000000, thoroughRuns: 200000000,
		quickBudget: 100 * time.Second, thoroughBudget: 10 * time.Minute,
		requiredProbes: []string{
			"probe_terminator_borrowed", "probe_restore_after_borrow", "probe_ctor_reader_failed", "probe_ctor_reader_chunked",
			"probe_peekrune_i_gt0_near_end", "probe_peekrune_multibyte", "probe_peekrune_truncated_at_end", "probe_peekrune_invalid_or_truncated",
			"probe_scanned_to_end", "probe_big_input", "probe_sibling_instance", "probe_sized_reader_partially_consumed", "fault_error_with_data", "fault_error_without_data", "fault_zero_read", "eof_with_data", "fault_error_reported_once_then_eof", "fault_error_transient_source_carries_on", "probe_reader_over_writer_bytes", "probe_buffer_reader_partially_consumed",
		},
		rule: "one run = one seeded cursor history on a real parse.Input or buffer.Lexer built through a tape-chosen constructor (bytes with/without spare capacity and tape-chosen garbage behind the input, string, simulated reader with chunking/zero reads/EOF styles/failure at byte k, three kinds of Bytes() readers, nil); non-trivial = the constructor's reader chunked or failed, or the terminator was borrowed from the caller's array, or PeekRune(i>0) was issued within 4 bytes of the end; distinct = hash of (type, constructor, failure, operation-kind sequence, distance-to-end class of each rune operation)",
		realStub: map[string][]string{
			"real": append([]string{"parse.Input, buffer.Lexer, buffer.Reader, io.ReadAll, bytes.Buffer"}, realLib...),
			"stub": {"faultio.Reader (io.Reader, with and without Bytes())", "the caller (operation generator, owner of the backing array)", "reference cursor (oracle), unicode/utf8 (oracle)"},
		},
		assumptions: []string{
			"a call is judged not to return (<P>/hang) when the process spends 20 s of CPU time without a single simulator event while the run's goroutine is inside the library; the slowest legitimate operation costs milliseconds",
			"operation sequences respect the documented contract: start <= pos <= len, Restore only as the last call, PeekRune/MoveRune not issued at the end position itself",
			"after construction there is no I/O left to fault: the history half is model-based exploration of a sequential API under the simulator's generator, replay and shrinker (DESIGN.md 3.2)",
		},
	}

	cfgs["C19"] = &propCfg{
		quickRuns: 300000, thoroughRuns: 24000000,
		quickBudget: 150 * time.Second, thoroughBudget: 14 * time.Minute,
		raceShare: 4, singleProc: true,
		requiredProbes: []string{
			"fault_truncated", "fault_short_read", "eof_with_data", "eof_with_exact_fit", "fault_error_with_data", "fault_error_without_data",
			"probe_typed_read_ran_past_end", "probe_typed_read_straddles_end", "probe_mirror_runs", "probe_clone", "probe_iotest_runs",
			"probe_ioerr_runs", "probe_ioerr_read_crossed_failure", "probe_ioerr_constructor_failed", "probe_bitmap_runs", "probe_bitmap_full_buffer",
			"probe_parallel_runs", "probe_parallel_task_switches", "probe_big_blob", "probe_huge_readbytes", "probe_seek_outside", "probe_stale_size_overrun", "probe_binaryreader_passthrough", "probe_rejected_request", "probe_ioerr_sibling_read", "probe_byte_order_switched", "probe_bitmap_recycled_buffer", "probe_bitmap_large", "probe_file_handle_offset_not_zero",
		},
		rule: "one run = one seeded history: typed writes through the real BinaryWriter (both byte orders, optional prefix), truncation at a tape-chosen byte, then typed reads / ReadBytes / Read / ReadAt / Seek / Clone on the real BinaryReader over one of 15 constructors (memory, reader with Bytes(), simulated ReadSeeker with and without size, simulated ReaderAt, ReadAll path, streaming reader, real file by handle and by path, mmap by path and by handle, bytes.Reader, strings.Reader, io.SectionReader, os.File through the generic constructor; sometimes the resulting *BinaryReader is handed to the constructor again) with short reads and both EOF styles drawn per Read call; separate families: injected non-EOF failure at byte F, torn source (announced size larger than the data), bitmap writer/reader (incl. recycled buffers and >2^16 bits), and 2-4 parallel ReadAt/Clone callers interleaved at every Seek/Read/ReadAt of the shared source by the seeded scheduler; non-trivial = truncated, or a short read / EOF-with-data / exact-fit EOF fired, or a failure was injected, or a bitmap run with >=1 bit, or a scheduled run with a contended lock or >=3 task switches; distinct = hash of (backend, byte order, operation-kind sequence, whence values, schedule)",
		realStub: map[string][]string{
			"real": append([]string{"parse.BinaryWriter, BinaryReader (+Clone), all five IBinaryReader backends incl. the sync.Mutex of the seeker backend, BitmapWriter/Reader", "the kernel's file and mmap implementation for the file backends"}, realLib...),
			"stub": {"faultio.Reader / ReadSeeker / ReaderAt (simulated sources)", "caller tasks and the baton scheduler", "encoding/binary + bytes.Reader.Seek + testing/iotest.TestReader (reference models)"},
		},
		assumptions: []string{
			"a call is judged not to return (<P>/hang) when the process spends 20 s of CPU time without a single simulator event while the run's goroutine is inside the library; the slowest legitimate operation costs milliseconds",
			"(0,nil) reads are not injected: BinaryReader turns them into an error and the property is silent about them",
			"after the first read past the end no Seek is generated; Pos is then only required to stay within [0,size] with Pos+Len == size",
			"under an injected non-EOF failure only: no panic, reads entirely before F right, never a non-zero value across F",
			"Seek and ReadAt are not generated on the streaming io.Reader backend (documented unsupported); out-of-range Seek targets are not judged",
			"faults below os.File/mmap (EIO, SIGBUS) are not injected",
		},
	}
	cfgs["C20"] = &propCfg{
		quickRuns: 24000, thoroughRuns: 4000000,
		quickBudget: 150 * time.Second, thoroughBudget: 14 * time.Minute,
		raceShare: 2, singleProc: true, freshEvery: 16, innerShare: 2,
		requiredProbes: []string{
			"wl_css.Lexer", "wl_css.Parser", "wl_html.Lexer", "wl_xml.Lexer", "wl_json.Parser", "wl_js.Lexer", "wl_js.Parse+print+Walk", "wl_strconv", "wl_helpers",
			"wl_Position/Error", "wl_Input+buffer.Lexer", "wl_StreamLexer", "wl_Indenter", "wl_BinaryWriter/Reader", "wl_buffer.Writer/Reader+misc", "wl_js.AST strings",
			"probe_identical_inputs", "probe_focused_runs", "probe_all_identical_runs", "probe_deep_input_runs", "probe_decoy_before_real", "probe_fresh_process_compared", "probe_sched_task_switches", "probe_scheduled_runs", "probe_whole_run_in_fresh_process",
		},
		rule: "one run = 2-6 caller tasks, each a deterministic workload (one of 16 entry-point families) over a private instance and private input from an embedded corpus plus the string literals of the library's own test files, spliced/mutated/truncated/enlarged from the tape (runes of all UTF-8 widths inserted, empty input, several kilobytes, nesting up to the parser limits), half of the runs with two tasks on byte-identical input, a third focused on one family; executed solo in order, interleaved one-at-a-time by the seeded baton scheduler (yield before every public call and inside every simulated reader/writer/visitor), solo again in reverse order (interleaved and second solo phase optionally preceded by a decoy input in the same reused caller buffer), and for samples in fresh processes (single workloads, and whole runs with the interleaved phase first, plain and race build); half of the workers run the same runs under the Go race detector, to which the scheduler is invisible; non-trivial = at least two tasks took at least two turns each; distinct = hash of (multiset of workload kinds, schedule projected on (task, yield site))",
		realStub: map[string][]string{
			"real": append([]string{"every package of the library: css, html, xml, json, js (lexer, parser, printer, Walk), strconv, buffer, parse helpers, Input, StreamLexer, BinaryReader/Writer, Indenter, Position/Error", "Go race detector"}, realLib...),
			"stub": {"caller tasks (workloads)", "baton scheduler", "yielding reader / writer / visitor", "vyield hook calls inserted into a scratch copy of the library for the instrumented build (the library code itself is unchanged)"},
		},
		assumptions: []string{
			"a call is judged not to return (<P>/hang) when the process spends 20 s of CPU time without a single simulator event while the run's goroutine is inside the library; the slowest legitimate operation costs milliseconds",
			"inside library calls tasks are preempted only in the workers that run the instrumented build (a yield hook at every function entry and loop iteration of a scratch copy of the library; parking at every period-th hook), and that is sampled, not exhaustive; the race detector, to which the scheduler adds no happens-before edge, covers every access pair regardless of the interleaving",
			"a synchronised cache (sync.Pool/Once/mutex) is not a violation; only a wrong transcript, a changed exported package variable or a race report with a frame in the library is",
			"a panic of the library is an outcome that is compared, not a failure of this check (crash freedom is property C01, not claimed)",
		},
	}
}
