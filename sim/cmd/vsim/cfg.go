package main

import "time"

var realLib = []string{"github.com/tdewolff/parse/v2 (working tree of /repo, unmodified, no hooks)", "Go runtime and standard library"}

func init() {
	cfgs["C13"] = &propCfg{
		quickRuns: 60000, thoroughRuns: 12000000,
		quickBudget: 100 * time.Second, thoroughBudget: 14 * time.Minute,
		requiredProbes: []string{
			"probe_refill_unfinished_token", "probe_refill_inplace", "probe_refill_reuse_pool_block", "probe_refill_fresh_alloc",
			"probe_buffer_growth", "eof_with_data", "fault_zero_before_eof", "fault_error_with_data", "fault_error_without_data",
			"probe_held_expired", "probe_held_verified_after_swap", "probe_shiftext_had_to_read", "probe_memory_family_runs",
			"probe_peekrune_multibyte", "fault_zero_read", "fault_short_read", "probe_drained_to_end",
		},
		rule: "one run = one seeded history (swarm-configured operation mix, buffer size, Free discipline) on the real buffer.StreamLexer over a simulated reader whose chunking/zero reads/EOF style/failure point are drawn per Read call; non-trivial = at least one refill happened while a token was unfinished, or an injected reader failure fired, or the run belongs to the long-stream memory family; distinct = hash of the sequence (operation kind, refill kind caused) differs",
		realStub: map[string][]string{
			"real": append([]string{"buffer.StreamLexer, bufferPool"}, realLib...),
			"stub": {"faultio.Reader (io.Reader)", "the caller (operation generator)", "reference cursor model (oracle)"},
		},
		assumptions: []string{
			"held-slice guarantee threshold = bytes shifted when the slice was handed out (DESIGN.md 3.1)",
			"operation sequences respect the documented contract (no move past the end; moves over unpeeked bytes only directly before Shift)",
			"memory held is read by reflection from StreamLexer.buf and pool; if the fields are renamed the bound is not checked and the evidence says so",
		},
	}

	cfgs["C12"] = &propCfg{
		quickRuns: 400000, thoroughRuns: 40000000,
		quickBudget: 100 * time.Second, thoroughBudget: 10 * time.Minute,
		requiredProbes: []string{
			"probe_terminator_borrowed", "probe_restore_after_borrow", "probe_ctor_reader_failed", "probe_ctor_reader_chunked",
			"probe_peekrune_i_gt0_near_end", "probe_peekrune_multibyte", "probe_peekrune_truncated_at_end", "probe_peekrune_invalid_or_truncated",
			"probe_scanned_to_end", "fault_error_with_data", "fault_error_without_data", "fault_zero_read", "eof_with_data",
		},
		rule: "one run = one seeded cursor history on a real parse.Input or buffer.Lexer built through a tape-chosen constructor (bytes with/without spare capacity and tape-chosen garbage behind the input, string, simulated reader with chunking/zero reads/EOF styles/failure at byte k, three kinds of Bytes() readers, nil); non-trivial = the constructor's reader chunked or failed, or the terminator was borrowed from the caller's array, or PeekRune(i>0) was issued within 4 bytes of the end; distinct = hash of (type, constructor, failure, operation-kind sequence, distance-to-end class of each rune operation)",
		realStub: map[string][]string{
			"real": append([]string{"parse.Input, buffer.Lexer, buffer.Reader, io.ReadAll, bytes.Buffer"}, realLib...),
			"stub": {"faultio.Reader (io.Reader, with and without Bytes())", "the caller (operation generator, owner of the backing array)", "reference cursor (oracle), unicode/utf8 (oracle)"},
		},
		assumptions: []string{
			"operation sequences respect the documented contract: start <= pos <= len, Restore only as the last call, PeekRune/MoveRune not issued at the end position itself",
			"after construction there is no I/O left to fault: the history half is model-based exploration of a sequential API under the simulator's generator, replay and shrinker (DESIGN.md 3.2)",
		},
	}
}
