package main

import (
	"bytes"
	"fmt"
	"go/ast"
	"go/format"
	"go/parser"
	"go/token"
	"os"
	"path/filepath"
	"strings"
)

// runInstrument copies the library's non-test sources from repo to out and inserts a call
// to vyield.P() at the beginning of every function body, function literal and loop body, so
// that the scheduler can preempt a task INSIDE a library call. Nothing else is changed; the
// copy lives outside /repo and /verif and is removed by the caller.
func runInstrument(repo, out string) error {
	const hookPkg = "github.com/tdewolff/parse/v2/vyield"
	if err := os.MkdirAll(filepath.Join(out, "vyield"), 0o755); err != nil {
		return err
	}
	hook := "// Package vyield is added by the verification harness (never part of /repo).\npackage vyield\n\n// Hook is called at every instrumented point when set.\nvar Hook func()\n\n// P is the instrumentation point.\nfunc P() {\n\tif Hook != nil {\n\t\tHook()\n\t}\n}\n\n// HookU is called right after a synchronisation release (Unlock, Pool.Put, atomic store) when set.\nvar HookU func()\n\n// U is that instrumentation point.\nfunc U() {\n\tif HookU != nil {\n\t\tHookU()\n\t}\n}\n"
	if err := os.WriteFile(filepath.Join(out, "vyield", "vyield.go"), []byte(hook), 0o644); err != nil {
		return err
	}
	n, nu := 0, 0
	err := filepath.Walk(repo, func(path string, info os.FileInfo, err error) error {
		if err != nil {
			return err
		}
		rel, _ := filepath.Rel(repo, path)
		if info.IsDir() {
			if rel == ".git" || rel == "tests" || rel == "vyield" {
				return filepath.SkipDir
			}
			return os.MkdirAll(filepath.Join(out, rel), 0o755)
		}
		if rel == "go.mod" || rel == "go.sum" {
			b, e := os.ReadFile(path)
			if e != nil {
				return e
			}
			return os.WriteFile(filepath.Join(out, rel), b, 0o644)
		}
		if !strings.HasSuffix(rel, ".go") || strings.HasSuffix(rel, "_test.go") {
			return nil
		}
		fset := token.NewFileSet()
		f, e := parser.ParseFile(fset, path, nil, parser.ParseComments)
		if e != nil {
			return e
		}
		call := func() ast.Stmt {
			return &ast.ExprStmt{X: &ast.CallExpr{Fun: &ast.SelectorExpr{X: ast.NewIdent("vyield"), Sel: ast.NewIdent("P")}}}
		}
		touched := false
		// first pass: a U() point right after every statement that releases something another
		// task may be waiting for or may observe (x.Unlock(), x.RUnlock(), pool.Put(v), atomic
		// Store/Swap/CompareAndSwap), and for `defer x.Unlock()` a deferred U() registered just
		// before it, so that it runs just after the unlock
		ucall := func() ast.Stmt {
			return &ast.ExprStmt{X: &ast.CallExpr{Fun: &ast.SelectorExpr{X: ast.NewIdent("vyield"), Sel: ast.NewIdent("U")}}}
		}
		releases := func(e ast.Expr) bool {
			c, ok := e.(*ast.CallExpr)
			if !ok {
				return false
			}
			sel, ok := c.Fun.(*ast.SelectorExpr)
			if !ok {
				return false
			}
			switch sel.Sel.Name {
			case "Lock", "RLock", "TryLock", "Get", "Load", "LoadPointer", "LoadInt32", "LoadInt64", "LoadUint32", "LoadUint64", "Add", "AddInt32", "AddInt64", "Do":
				// (and right after an acquire or an atomic read: what a lock-order inversion, a
				// Load-then-Store that should have been a Swap, or a key/value pair read in two
				// steps needs)
				return true
			case "Unlock", "RUnlock", "Put", "Store", "Swap", "CompareAndSwap", "StorePointer", "StoreInt32", "StoreInt64", "StoreUint32", "StoreUint64":
				return true
			}
			return false
		}
		// has reports whether the node contains such a call outside nested blocks and literals
		has := func(nd ast.Node) bool {
			found := false
			if nd == nil || nd == ast.Node(nil) {
				return false
			}
			ast.Inspect(nd, func(c ast.Node) bool {
				switch y := c.(type) {
				case *ast.FuncLit, *ast.BlockStmt:
					return false
				case *ast.CallExpr:
					if releases(y) {
						found = true
					}
				}
				return !found
			})
			return found
		}
		rewrite := func(list []ast.Stmt) []ast.Stmt {
			var out []ast.Stmt
			for _, st := range list {
				switch x := st.(type) {
				case *ast.ExprStmt, *ast.AssignStmt, *ast.IncDecStmt, *ast.SendStmt, *ast.DeclStmt:
					out = append(out, st)
					if has(st) {
						out = append(out, ucall())
						touched = true
						nu++
					}
					continue
				case *ast.IfStmt:
					if (x.Init != nil && has(x.Init)) || has(x.Cond) {
						x.Body.List = append([]ast.Stmt{ucall()}, x.Body.List...)
						out = append(out, st)
						if eb, ok := x.Else.(*ast.BlockStmt); ok {
							eb.List = append([]ast.Stmt{ucall()}, eb.List...)
						} else if x.Else == nil {
							out = append(out, ucall())
						}
						touched = true
						nu++
						continue
					}
				case *ast.DeferStmt:
					if releases(x.Call) {
						out = append(out, &ast.DeferStmt{Call: ucall().(*ast.ExprStmt).X.(*ast.CallExpr)})
						touched = true
						nu++
					}
				}
				out = append(out, st)
			}
			return out
		}
		ast.Inspect(f, func(nd ast.Node) bool {
			switch x := nd.(type) {
			case *ast.BlockStmt:
				x.List = rewrite(x.List)
			case *ast.CaseClause:
				x.Body = rewrite(x.Body)
			case *ast.CommClause:
				x.Body = rewrite(x.Body)
			}
			return true
		})
		ast.Inspect(f, func(nd ast.Node) bool {
			var body *ast.BlockStmt
			switch x := nd.(type) {
			case *ast.FuncDecl:
				body = x.Body
			case *ast.FuncLit:
				body = x.Body
			case *ast.ForStmt:
				body = x.Body
			case *ast.RangeStmt:
				body = x.Body
			}
			if body != nil {
				body.List = append([]ast.Stmt{call()}, body.List...)
				touched = true
				n++
			}
			return true
		})
		if touched {
			// add the import
			imp := &ast.ImportSpec{Path: &ast.BasicLit{Kind: token.STRING, Value: fmt.Sprintf("%q", hookPkg)}}
			decl := &ast.GenDecl{Tok: token.IMPORT, Specs: []ast.Spec{imp}}
			f.Decls = append([]ast.Decl{decl}, f.Decls...)
		}
		var buf bytes.Buffer
		if e := format.Node(&buf, fset, f); e != nil {
			return fmt.Errorf("%s: %v", rel, e)
		}
		return os.WriteFile(filepath.Join(out, rel), buf.Bytes(), 0o644)
	})
	if err != nil {
		return err
	}
	fmt.Printf("vsim: instrumented copy of %s in %s (%d yield points, %d after a release)\n", repo, out, n, nu)
	return nil
}
