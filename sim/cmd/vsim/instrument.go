package main

import (
	"bytes"
	"fmt"
	"go/ast"
	"go/format"
	"go/parser"
	"go/token"
	"os"
	"path/filepath"
	"strings"
)

// runInstrument copies the library's non-test sources from repo to out and inserts a call
// to vyield.P() at the beginning of every function body, function literal and loop body, so
// that the scheduler can preempt a task INSIDE a library call. Nothing else is changed; the
// copy lives outside /repo and /verif and is removed by the caller.
func runInstrument(repo, out string) error {
	const hookPkg = "github.com/tdewolff/parse/v2/vyield"
	if err := os.MkdirAll(filepath.Join(out, "vyield"), 0o755); err != nil {
		return err
	}
	hook := "// Package vyield is added by the verification harness (never part of /repo).\npackage vyield\n\n// Hook is called at every instrumented point when set.\nvar Hook func()\n\n// P is the instrumentation point.\nfunc P() {\n\tif Hook != nil {\n\t\tHook()\n\t}\n}\n"
	if err := os.WriteFile(filepath.Join(out, "vyield", "vyield.go"), []byte(hook), 0o644); err != nil {
		return err
	}
	n := 0
	err := filepath.Walk(repo, func(path string, info os.FileInfo, err error) error {
		if err != nil {
			return err
		}
		rel, _ := filepath.Rel(repo, path)
		if info.IsDir() {
			if rel == ".git" || rel == "tests" || rel == "vyield" {
				return filepath.SkipDir
			}
			return os.MkdirAll(filepath.Join(out, rel), 0o755)
		}
		if rel == "go.mod" || rel == "go.sum" {
			b, e := os.ReadFile(path)
			if e != nil {
				return e
			}
			return os.WriteFile(filepath.Join(out, rel), b, 0o644)
		}
		if !strings.HasSuffix(rel, ".go") || strings.HasSuffix(rel, "_test.go") {
			return nil
		}
		fset := token.NewFileSet()
		f, e := parser.ParseFile(fset, path, nil, parser.ParseComments)
		if e != nil {
			return e
		}
		call := func() ast.Stmt {
			return &ast.ExprStmt{X: &ast.CallExpr{Fun: &ast.SelectorExpr{X: ast.NewIdent("vyield"), Sel: ast.NewIdent("P")}}}
		}
		touched := false
		ast.Inspect(f, func(nd ast.Node) bool {
			var body *ast.BlockStmt
			switch x := nd.(type) {
			case *ast.FuncDecl:
				body = x.Body
			case *ast.FuncLit:
				body = x.Body
			case *ast.ForStmt:
				body = x.Body
			case *ast.RangeStmt:
				body = x.Body
			}
			if body != nil {
				body.List = append([]ast.Stmt{call()}, body.List...)
				touched = true
				n++
			}
			return true
		})
		if touched {
			// add the import
			imp := &ast.ImportSpec{Path: &ast.BasicLit{Kind: token.STRING, Value: fmt.Sprintf("%q", hookPkg)}}
			decl := &ast.GenDecl{Tok: token.IMPORT, Specs: []ast.Spec{imp}}
			f.Decls = append([]ast.Decl{decl}, f.Decls...)
		}
		var buf bytes.Buffer
		if e := format.Node(&buf, fset, f); e != nil {
			return fmt.Errorf("%s: %v", rel, e)
		}
		return os.WriteFile(filepath.Join(out, rel), buf.Bytes(), 0o644)
	})
	if err != nil {
		return err
	}
	fmt.Printf("vsim: instrumented copy of %s in %s (%d yield points)\n", repo, out, n)
	return nil
}
