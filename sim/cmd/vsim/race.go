package main

import (
	"bytes"
	"encoding/json"
	"fmt"
	"os"
	"os/exec"
	"path/filepath"
	"regexp"
	"strconv"
	"strings"
	"time"

	"verif/sim/core"
)

const libPath = "github.com/tdewolff/parse/v2"

var runMarker = regexp.MustCompile(`(?m)^RUN (\d+)$`)

// raceSummary extracts from a race detector report the innermost library
// function of each of the two conflicting accesses.
func raceSummary(report string) (summary string, inLib bool) {
	i := strings.Index(report, "WARNING: DATA RACE")
	if i < 0 {
		return "", false
	}
	rep := report[i:]
	if j := strings.Index(rep[1:], "=================="); j > 0 {
		rep = rep[:j+1]
	}
	var parts []string
	blocks := strings.Split(rep, "\n\n")
	for _, b := range blocks {
		lines := strings.Split(strings.TrimSpace(b), "\n")
		if len(lines) == 0 {
			continue
		}
		head := strings.TrimSpace(lines[0])
		if strings.HasPrefix(head, "WARNING: DATA RACE") && len(lines) > 1 {
			head = strings.TrimSpace(lines[1])
			lines = lines[1:]
		}
		if !(strings.HasPrefix(head, "Write at") || strings.HasPrefix(head, "Read at") || strings.HasPrefix(head, "Previous write at") || strings.HasPrefix(head, "Previous read at")) {
			continue
		}
		kind := strings.Fields(head)
		what := kind[0]
		if what == "Previous" {
			what = "previous " + kind[1]
		}
		fn := ""
		for _, l := range lines[1:] {
			l = strings.TrimSpace(l)
			if strings.HasPrefix(l, libPath) {
				fn = l
				if k := strings.LastIndex(fn, "/"); k >= 0 {
					fn = fn[k+1:]
				}
				fn = strings.TrimSuffix(fn, "()")
				break
			}
		}
		if fn != "" {
			inLib = true
			parts = append(parts, strings.ToLower(what)+" in "+fn)
		} else {
			parts = append(parts, strings.ToLower(what)+" outside the library")
		}
	}
	return "DATA RACE: " + strings.Join(parts, " / "), inLib
}

// execTapeProc runs a tape in a fresh process of bin. It returns the exit
// code, combined output and the normalised tape the child reports.
func execTapeProc(bin, prop, tier string, tape []uint32, single bool) (int, string, []uint32) {
	req, _ := json.Marshal(execTapeReq{Property: prop, Tier: tier, Tape: tape})
	cmd := exec.Command(bin, "exec-tape")
	cmd.Stdin = bytes.NewReader(req)
	cmd.Env = append(os.Environ(), "GORACE=halt_on_error=1 exitcode=66 atexit_sleep_ms=0")
	if single {
		cmd.Env = append(cmd.Env, "GOMAXPROCS=1")
	}
	var out bytes.Buffer
	cmd.Stdout = &out
	cmd.Stderr = &out
	done := make(chan error, 1)
	var startErr error
	for attempt := 0; attempt < 4; attempt++ {
		if startErr = cmd.Start(); startErr == nil {
			break
		}
		// transient (EAGAIN under load): build a fresh Cmd and try again
		time.Sleep(time.Duration(200*(attempt+1)) * time.Millisecond)
		cmd = exec.Command(bin, "exec-tape")
		cmd.Stdin = bytes.NewReader(req)
		cmd.Env = append(os.Environ(), "GORACE=halt_on_error=1 exitcode=66 atexit_sleep_ms=0")
		if single {
			cmd.Env = append(cmd.Env, "GOMAXPROCS=1")
		}
		out.Reset()
		cmd.Stdout = &out
		cmd.Stderr = &out
	}
	if startErr != nil {
		return 2, startErr.Error(), nil
	}
	go func() { done <- cmd.Wait() }()
	select {
	case <-done:
	case <-time.After(300 * time.Second):
		cmd.Process.Kill()
		<-done
		return 2, "timeout", nil
	}
	code := cmd.ProcessState.ExitCode()
	var used []uint32
	for _, l := range strings.Split(out.String(), "\n") {
		if strings.HasPrefix(l, "TAPE ") {
			json.Unmarshal([]byte(l[5:]), &used)
		}
	}
	return code, out.String(), used
}

// confirmRace re-runs run r under the race build, shrinks the tape with one
// process per candidate and writes the replay file.
func raceTry(bin, prop, tier string, tape []uint32, single bool, attempts int) (int, string) {
	code, rep := 0, ""
	for i := 0; i < attempts; i++ {
		code, rep, _ = execTapeProc(bin, prop, tier, tape, single)
		if code == 66 {
			if _, lib := raceSummary(rep); lib {
				return code, rep
			}
		}
	}
	return code, rep
}

func confirmRace(prop string, seed uint64, tier string, r int, raceBin string, single bool, origReport string) (*violationRec, string) {
	// the recorded tape comes from the plain binary (same code, same tape)
	out, err := exec.Command(os.Args[0], "tape", "-prop", prop, "-seed", strconv.FormatUint(seed, 10), "-run", strconv.Itoa(r), "-tier", tier).Output()
	if err != nil {
		return nil, fmt.Sprintf("cannot obtain the tape of run %d: %v", r, err)
	}
	var tape []uint32
	if json.Unmarshal(out, &tape) != nil {
		return nil, "cannot parse the tape of run " + strconv.Itoa(r)
	}
	// The detector keeps a bounded, randomly evicted access history per word, so a race
	// between accesses that lie far apart is reported with high but not full probability:
	// retry. A report is never a false positive, so the worker's own report stands even if
	// no retry reproduces it.
	code, rep := raceTry(raceBin, prop, tier, tape, single, 5)
	confirmed := code == 66
	if !confirmed {
		rep = origReport
	}
	sum, inLib := raceSummary(rep)
	if !inLib {
		return nil, fmt.Sprintf("run %d: race report without a frame in %s — a race inside the harness:\n%s", r, libPath, lastLines(rep, 60))
	}
	class := prop + "/race"
	execs := 0
	// The child dies before it can report its normalised tape, so candidates are kept as given.
	oracle := func(c []uint32) (*core.Violation, []uint32) {
		execs++
		if code, _ := raceTry(raceBin, prop, tier, c, single, 2); code == 66 {
			return &core.Violation{Class: class}, c
		}
		return nil, nil
	}
	small := tape
	if confirmed {
		small, _ = core.Shrink(tape, class, oracle, 60, 75*time.Second)
		if code, rep2 := raceTry(raceBin, prop, tier, small, single, 5); code == 66 {
			rep = rep2
		} else {
			small = tape
		}
	}
	sum, _ = raceSummary(rep)
	// description from the plain binary (trace on); it may or may not violate an oracle too
	desc := execTape(prop, small, true, map[string]string{"tier": tier, "self": os.Args[0], "race": "false"})
	rf := replayFile{Property: prop, Seed: seed, Run: r, Tier: tier, Class: class, Facts: "detector=go-race", Msg: sum, Digest: "", Tape: small, Desc: desc.Ctx.Desc, Trace: append(tail(desc.Ctx.L.Lines, 200), strings.Split(lastLines(rep, 60), "\n")...), OrigTape: len(tape)}
	path := filepath.Join(replayDir(), fmt.Sprintf("%s-%d-%d-race.json", prop, seed, r))
	os.MkdirAll(filepath.Dir(path), 0o755)
	b, _ := json.MarshalIndent(rf, "", " ")
	if err := os.WriteFile(path, b, 0o644); err != nil {
		return nil, "cannot write replay file: " + err.Error()
	}
	return &violationRec{Run: r, Class: class, Facts: rf.Facts, Msg: sum, Replay: path, Shrunk: len(small), Execs: execs}, ""
}

// replayRace re-executes a race replay file under the race build.
func replayRace(rf *replayFile, file string) int {
	raceBin := os.Args[0] + ".race"
	if _, err := os.Stat(raceBin); err != nil {
		fmt.Printf("REPLAY-DIVERGED: %s not built\n", raceBin)
		return 2
	}
	code, rep := raceTry(raceBin, rf.Property, rf.Tier, rf.Tape, true, 6)
	if code == 66 {
		sum, inLib := raceSummary(rep)
		if inLib {
			fmt.Println(lastLines(rep, 40))
			fmt.Printf("%s [%s]: %s\n", rf.Class, rf.Facts, sum)
			if sum != rf.Msg {
				fmt.Printf("note: recorded summary was: %s\n", rf.Msg)
			}
			fmt.Printf("VIOLATION property=%s replay=%s\n", rf.Property, file)
			return 1
		}
		fmt.Printf("REPLAY-DIVERGED: race report without library frame\n%s\n", lastLines(rep, 40))
		return 2
	}
	if code == 0 || code == 1 {
		fmt.Printf("REPLAY-CLEAN property=%s file=%s: no race report on this tree (exit %d)\n", rf.Property, file, code)
		return 3
	}
	fmt.Printf("REPLAY-DIVERGED exit %d\n%s\n", code, lastLines(rep, 20))
	return 2
}
